#!/venv/bin/python
"""Confirm one independently produced property-breaking change and run the owning check against it.

usage: tools/try_seeded.py C07 1 [--checks C07,C01] [--tier quick] [--no-keep]
Reads /tmp/seed-out/<ID>/patch<N>.diff, demo<N>.py, notes.md.  Steps (all in a scratch worktree under /var/tmp):
  1. the patch applies to /repo HEAD; the repository's test suite still passes (run in a private network namespace:
     tests/test_mllp.py binds fixed ports);
  2. the demonstration exits 1 with the change and 0 without it;
  3. the property's check (HL7APY_REPO -> scratch tree) is run; caught = exit 1 with a VIOLATION line.
When 1 and 2 hold the change is kept under /verif/seeded/<ID>-<N>/ (patch.diff, demo.py, meta.json).
"""
import argparse
import json
import os
import re
import shutil
import subprocess
import sys

VERIF = os.path.dirname(os.path.dirname(os.path.abspath(__file__)))


def sh(cmd, **kw):
    return subprocess.run(cmd, shell=True, stdout=subprocess.PIPE, stderr=subprocess.STDOUT, **kw)


def main():
    ap = argparse.ArgumentParser()
    ap.add_argument('prop')
    ap.add_argument('n')
    ap.add_argument('--checks', default='')
    ap.add_argument('--tier', default='quick')
    ap.add_argument('--src', default='/tmp/seed-out')
    ap.add_argument('--no-keep', action='store_true')
    ap.add_argument('--skip-tests', action='store_true')
    ap.add_argument('--keep-as', default=None, help='number under which the change is kept in /verif/seeded')
    args = ap.parse_args()
    prop, n = args.prop, args.n
    src = os.path.join(args.src, prop)
    kept = os.path.join(VERIF, 'seeded', '%s-%s' % (prop, args.keep_as or n))
    patch = os.path.join(src, 'patch%s.diff' % n)
    demo = os.path.join(src, 'demo%s.py' % n)
    if not os.path.exists(patch) and os.path.exists(os.path.join(kept, 'patch.diff')):
        patch, demo = os.path.join(kept, 'patch.diff'), os.path.join(kept, 'demo.py')
    tree = '/var/tmp/hl7seed-%s-%s' % (prop, n)
    res = {'property': prop, 'n': n}
    sh('git -C /repo worktree remove --force %s' % tree)
    r = sh('git -C /repo worktree add -q --detach %s HEAD' % tree)
    try:
        r = sh('git -C %s apply %s' % (tree, patch))
        res['applies'] = r.returncode == 0
        if not res['applies']:
            res['apply_error'] = r.stdout.decode()[-300:]
            print(json.dumps(res, indent=1))
            return 2
        if not args.skip_tests:
            t = sh("unshare -rn sh -c 'ip link set lo up; cd %s && /venv/bin/python -m pytest -q -p no:cacheprovider "
                   "--timeout=900 2>&1 | tail -1'" % tree)
            res['tests'] = t.stdout.decode().strip()
        else:
            res['tests'] = 'skipped'
        d1 = sh('cd /tmp && PYTHONPATH=%s HL7APY_TREE=%s timeout 300 /venv/bin/python %s' % (tree, tree, demo))
        d0 = sh('cd /tmp && PYTHONPATH=/repo HL7APY_TREE=/repo timeout 300 /venv/bin/python %s' % demo)
        res['demo_patched_exit'] = d1.returncode
        res['demo_clean_exit'] = d0.returncode
        res['demo_patched_tail'] = d1.stdout.decode()[-300:]
        res['confirmed'] = ('353 passed' in res['tests'] or args.skip_tests) and d1.returncode == 1 and d0.returncode == 0
        checks = [c for c in args.checks.split(',') if c] or [prop]
        env = dict(os.environ, HL7APY_REPO=tree, VERIF_EVIDENCE_DIR='/var/tmp/hl7seed-ev-%s-%s' % (prop, n),
                   VERIF_REPLAY_DIR='/var/tmp/hl7seed-rp-%s-%s' % (prop, n))
        res['checks'] = {}
        for c in checks:
            p = subprocess.run([os.path.join(VERIF, 'check'), c, '--tier', args.tier], env=env, cwd=VERIF,
                               stdout=subprocess.PIPE, stderr=subprocess.STDOUT)
            out = p.stdout.decode()
            viol = [l for l in out.splitlines() if l.startswith('VIOLATION')]
            res['checks'][c] = {'exit': p.returncode, 'violations': len(viol), 'first': viol[0][:300] if viol else None,
                                'tail': out.strip().splitlines()[-1][:200] if out.strip() else ''}
        res['caught_by'] = [c for c, v in res['checks'].items() if v['exit'] == 1 and v['violations']]
        if res['confirmed'] and not args.no_keep:
            os.makedirs(kept, exist_ok=True)
            if os.path.abspath(patch) != os.path.join(kept, 'patch.diff'):
                shutil.copy(patch, os.path.join(kept, 'patch.diff'))
                shutil.copy(demo, os.path.join(kept, 'demo.py'))
            notes = ''
            np_ = os.path.join(src, 'notes.md')
            if os.path.exists(np_):
                notes = open(np_).read()
            meta_path = os.path.join(kept, 'meta.json')
            meta = json.load(open(meta_path)) if os.path.exists(meta_path) else {}
            meta.update({
                'property': prop,
                'origin': 'independent sub-agent given only the property text and a scratch worktree',
                'base_commit': sh('git -C /repo rev-parse HEAD').stdout.decode().strip(),
                'what_i_ran': ['git apply patch.diff on a scratch worktree of /repo HEAD',
                               'repository test suite in a private network namespace: ' + res['tests'],
                               'demo.py with the change: exit %d; without: exit %d' % (d1.returncode, d0.returncode),
                               './check %s --tier %s with HL7APY_REPO=<scratch tree>' % (','.join(checks), args.tier)],
                'caught_by': sorted(set(meta.get('caught_by', [])) | set(res['caught_by'])),
                'check_results': dict(meta.get('check_results', {}), **{c: {'exit': v['exit'], 'first_violation': v['first']}
                                                                       for c, v in res['checks'].items()}),
            })
            needs = json.load(open(os.path.join(VERIF, 'tools', 'seeded_needs.json'))).get('%s-%s' % (prop, args.keep_as or n))
            if needs:
                meta['change'] = needs[0]
                meta['needs_to_manifest'] = needs[1]
            if notes:
                meta['agent_notes_excerpt'] = notes[:2500]
            json.dump(meta, open(meta_path, 'w'), indent=1)
        print(json.dumps({k: v for k, v in res.items() if k != 'demo_patched_tail'}, indent=1))
        return 0 if res['confirmed'] and res['caught_by'] else 1
    finally:
        sh('git -C /repo worktree remove --force %s' % tree)
        shutil.rmtree('/var/tmp/hl7seed-ev-%s-%s' % (prop, n), ignore_errors=True)
        shutil.rmtree('/var/tmp/hl7seed-rp-%s-%s' % (prop, n), ignore_errors=True)


if __name__ == '__main__':
    sys.exit(main())
