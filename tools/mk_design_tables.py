#!/venv/bin/python
"""Rewrites the kill-matrix table of DESIGN.md (between the KILL-TABLE markers) from seeded/*/meta.json,
mutants/*/*.json and mutants/KILL_MATRIX.json."""
import glob
import json
import os

VERIF = os.path.dirname(os.path.dirname(os.path.abspath(__file__)))


def main():
    km = {}
    p = os.path.join(VERIF, 'mutants', 'KILL_MATRIX.json')
    if os.path.exists(p):
        for r in json.load(open(p))['results']:
            km[r['patch']] = r
    rows = []
    for d in sorted(glob.glob(os.path.join(VERIF, 'seeded', '*'))):
        m = json.load(open(os.path.join(d, 'meta.json')))
        name = 'seeded:' + os.path.basename(d)
        r = km.get(name, {})
        if m.get('neutralised_by'):
            continue
        caught = ', '.join(r.get('caught_by') or m.get('caught_by', [])) or \
            ('not detectable (see meta.json)' if m.get('not_detectable') else 'MISSED')
        rows.append((m['property'], os.path.basename(d), 'sub-agent', m.get('change', ''), m.get('needs_to_manifest', ''), caught))
    for f in sorted(glob.glob(os.path.join(VERIF, 'mutants', 'C*', '*.json'))):
        m = json.load(open(f))
        name = 'mutant:' + m['name']
        r = km.get(name, {})
        caught = ', '.join(r.get('caught_by', [])) or ('not run' if not r else 'MISSED')
        rows.append((m['property'], m['name'], 'own', m['name'].replace('_', ' '), m.get('needs', ''), caught))
    rows.sort()
    out = ['| property | change | origin | what was changed | needs to manifest | caught by (quick tier) |',
           '|---|---|---|---|---|---|']
    for r in rows:
        out.append('| %s | %s | %s | %s | %s | %s |' % tuple(str(x).replace('|', '\\|') for x in r))
    total = len(rows)
    caught = sum(1 for r in rows if r[5] not in ('MISSED', 'not run') and not r[5].startswith('not detectable'))
    out.append('')
    out.append('%d of %d changes are caught by the quick tier of the check named in the last column.' % (caught, total))
    text = '\n'.join(out)
    dp = os.path.join(VERIF, 'DESIGN.md')
    s = open(dp).read()
    a, b = '<!-- KILL-TABLE-BEGIN -->', '<!-- KILL-TABLE-END -->'
    if a not in s:
        s += '\n' + a + '\n' + b + '\n'
    i, j = s.index(a) + len(a), s.index(b)
    s = s[:i] + '\n' + text + '\n' + s[j:]
    open(dp, 'w').write(s)
    print('%d/%d' % (caught, total))


if __name__ == '__main__':
    main()
