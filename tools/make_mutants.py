#!/venv/bin/python
"""Regenerates /verif/mutants/<ID>/<name>.patch from textual edits against the current /repo HEAD.

Each mutant is a realistic property-breaking change.  It is kept only if the repository's own 353 tests still
pass with it.  Usage: tools/make_mutants.py [scratch worktree]  (default /var/tmp/hl7mut, created if missing).
"""
import json
import os
import subprocess
import sys

VERIF = os.path.dirname(os.path.dirname(os.path.abspath(__file__)))
SCRATCH = sys.argv[1] if len(sys.argv) > 1 else '/var/tmp/hl7mut'

# (property, name, file, old, new, what it needs to manifest)
M = [
 ('C01', 'parse_fields_skips_empty_repetition', 'hl7apy/parser.py',
  "                for rep in field.split(repetition_sep):\n                    fields.append(",
  "                for rep in field.split(repetition_sep):\n                    if not rep:\n                        continue\n                    fields.append(",
  'a field whose middle repetition is empty (A~~B)'),
 ('C01', 'nm_normalised_on_encode', 'hl7apy/base_datatypes.py',
  "            return '{0:f}'.format(self.value)", "            return '{0:f}'.format(self.value.normalize())",
  'an NM leaf with trailing zeros (10.50) or an integer written as 100'),
 ('C02', 'last_allowed_child_index_off_by_one', 'hl7apy/core.py',
  "            self._last_allowed_child_index = int(last_field_structure['name'][4:])",
  "            self._last_allowed_child_index = int(last_field_structure['name'][4:]) - 1",
  'a varies-terminated segment populated at and beyond its last defined field'),
 ('C02', 'subcomponent_named_by_index', 'hl7apy/parser.py',
  '            subcomponent_name = "{0}_{1}".format(component_datatype, index + 1)',
  '            subcomponent_name = "{0}_{1}".format(component_datatype, index + 1 if index < 4 else index)',
  'a complex component with 5 or more sub-components populated'),
 ('C03', 'unknown_fields_not_encoded', 'hl7apy/core.py',
  "        children.extend([c for c in self.children.get_children() if c[0].name in (None, 'ST')])\n        if not trailing:\n            children = _remove_trailing(children)\n        return children\n\n    def _handle_empty_children(self, encoding_chars=None):\n        return ''\n\n\nclass Group",
  "        if not trailing:\n            children = _remove_trailing(children)\n        return children\n\n    def _handle_empty_children(self, encoding_chars=None):\n        return ''\n\n\nclass Group",
  'a segment with fields beyond the defined count'),
 ('C04', 'max_cardinality_off_by_one', 'hl7apy/validation.py',
  "                elif children_num > max_repetitions:", "                elif children_num > max_repetitions + 1:",
  'exactly one child more than the maximum'),
 ('C04', 'raises_last_error', 'hl7apy/validation.py', "            raise errors[0]", "            raise errors[-1]",
  'a message with two or more different errors, raising form'),
 ('C04', 'report_file_without_warnings_for_path', 'hl7apy/validation.py',
  "                    for w in warnings:\n                        f.write(\"Warning: {}\\n\".format(w))", "                    pass",
  'a report file given by path and a message drawing warnings'),
 ('C05', 'strict_setter_allows_datatype_change', 'hl7apy/core.py',
  "        if Validator.is_strict(self.validation_level) and self.datatype and \\\n                datatype != self.datatype:\n            raise OperationNotAllowed(\"Cannot change datatype using STRICT validation\")\n\n        has_children",
  "        has_children",
  'datatype assignment on an existing STRICT field'),
 ('C06', 'R_sequence_reescaped', 'hl7apy/base_datatypes.py',
  "        return r'(%s[HNFSTRE]%s)|%s' % tuple(3 * [re.escape(escape_char)])",
  "        return r'(%s[HNFSTE]%s)|%s' % tuple(3 * [re.escape(escape_char)])",
  'text already holding the \\R\\ sequence, versions before 2.7'),
 ('C06', 'escape_char_not_regex_escaped', 'hl7apy/v2_7/base_datatypes.py',
  "        return r'(%s[HNFSTREL]%s)|%s' % tuple(3 * [re.escape(escape_char)])",
  "        return r'(%s[HNFSTREL]%s)|%s' % tuple(2 * [escape_char] + [re.escape(escape_char)])",
  'v2.7+ with a regex-special escape character such as . * + ? ( [ |'),
 ('C07', 'truncation_only_after_2_7', 'hl7apy/core.py',
  "        if self.version >= '2.7' and len(msh_2) == 5:", "        if self.version > '2.7' and len(msh_2) == 5:",
  'a v2.7 message with a truncation character: encoding_chars getter'),
 ('C07', 'parse_fields_default_repetition', 'hl7apy/parser.py',
  "    repetition_sep = encoding_chars['REPETITION']\n    splitted_fields",
  "    repetition_sep = get_default_encoding_chars(version)['REPETITION']\n    splitted_fields",
  'a non-default repetition separator and a repeated field'),
 ('C08', 'new_repetition_test_too_lax', 'hl7apy/parser.py',
  "                                and current_parent.repetitions[segment_name][1] == 1:",
  "                                and current_parent.repetitions[segment_name][1] != 0:",
  'a repeatable segment recurring inside a group'),
 ('C09', 'remove_by_name_ignores_index', 'hl7apy/core.py',
  "        child = self.child_at_index(name, index)\n        self.remove(child)\n        return child",
  "        child = self.child_at_index(name, -1 if index == 0 else index)\n        self.remove(child)\n        return child",
  'delete by name with two or more repetitions present'),
 ('C09', 'replace_moves_by_name_index', 'hl7apy/core.py',
  "            self.indexes[child.name].remove(child)\n            self.indexes[child.name].insert(by_name_index, child)\n\n    def append",
  "            self.indexes[child.name].remove(child)\n            self.indexes[child.name].insert(by_name_index + 1, child)\n\n    def append",
  'indexed replacement followed by another indexed operation on the same name'),
 ('C10', 'delitem_leaves_index', 'hl7apy/core.py',
  "        child = self.list[index]\n        self._remove_from_index(child)\n        del self.list[index]",
  "        del self.list[index]", 'deleting through the children list view'),
 ('C11', 'getattr_attaches_child', 'hl7apy/core.py',
  "            except IndexError:\n                element = self.element_list.create_element(self.element_name, traversal_parent=True)\n        return getattr(element, name)",
  "            except IndexError:\n                element = self.element_list.create_element(self.element_name, traversal_parent=False)\n        return getattr(element, name)",
  'reading two levels deep below an absent child'),
 ('C12', 'value_assignment_clears_first', 'hl7apy/core.py',
  "        else:\n            children = self.parse_children(value)\n            if Validator.is_tolerant(self.validation_level) and \\",
  "        else:\n            self.children = []\n            children = self.parse_children(value)\n            if Validator.is_tolerant(self.validation_level) and \\",
  'a value assignment rejected while parsing (STRICT invalid leaf) on a populated field'),
 ('C13', 'offset_hours_up_to_15', 'hl7apy/utils.py', "(\\+(1[0-4]|0[0-9])", "(\\+(1[0-5]|0[0-9])",
  'offset +15xx: the digits are split off as an offset and then refused differently'),
 ('C13', 'si_max_length_5', 'hl7apy/base_datatypes.py',
  "        super(SI, self).__init__(value, 4, validation_level)", "        super(SI, self).__init__(value, 5, validation_level)",
  'a five-digit SI under STRICT'),
 ('C14', 'long_name_first_wins', 'hl7apy/core.py',
  "                try:\n                    structure_by_longname[child_ref[3]] = structure[k]\n                except IndexError:\n                    pass",
  "                try:\n                    structure_by_longname.setdefault(child_ref[3].upper() if i else child_ref[3], structure[k])\n                except IndexError:\n                    pass",
  'never applied (placeholder)'),
 ('C14', 'positional_path_subcomponent_off_by_one', 'hl7apy/core.py',
  "            subcomponent = int(parts[3]) if len(parts) == 4 else None",
  "            subcomponent = int(parts[3]) + (1 if int(parts[3]) > 3 else 0) if len(parts) == 4 else None",
  'positional path to a sub-component beyond the third'),
 ('C15', 'msh12_unchecked', 'hl7apy/parser.py',
  "            elif len(seps) == N_SEPS_27 and len(fields) > 11 and fields[11] >= '2.7':",
  "            elif len(seps) == N_SEPS_27 and fields[11] >= '2.7':", 'a short MSH with five encoding characters'),
 ('C15', 'message_type_third_component_unguarded', 'hl7apy/parser.py',
  "        try:\n            message_structure = message_type[2]\n        except IndexError:\n            try:\n                message_structure = \"{0}_{1}\".format(message_type[0], message_type[1])\n            except IndexError:\n                message_structure = None",
  "        if len(message_type) > 2:\n            message_structure = message_type[2]\n        else:\n            message_structure = \"{0}_{1}\".format(message_type[0], message_type[1])",
  'MSH-9 with a single component (ACK)'),
 ('C16', 'frame_ends_at_any_cr_after_eb', 'hl7apy/mllp.py',
  "        while line[-2:] != end_seq:", "        while self.eb not in line[:-1] or line[-1:] != self.cr:",
  'never differs for well-formed frames (placeholder)'),
 ('C16', 'first_recv_assumed_complete', 'hl7apy/mllp.py',
  "        if line[:1] != self.sb:  # First MLLP char", "        if len(line) < 3 or line[:1] != self.sb:  # First MLLP char",
  'a first TCP write shorter than three bytes'),
 ('C16', 'shared_current_message', 'hl7apy/mllp.py',
  "            h = self._create_handler(handler, msg, args)\n            return h.reply()",
  "            MLLPRequestHandler.current = msg\n            h = self._create_handler(handler, MLLPRequestHandler.current, args)\n            return h.reply()",
  'never differs single-threaded; two clients interleaved between the two statements'),
 ('C17', 'parse_component_drops_version', 'hl7apy/parser.py',
  "        component = Component(datatype, version=version, validation_level=validation_level,\n                              reference=reference)",
  "        component = Component(datatype, validation_level=validation_level,\n                              reference=reference)",
  'an unknown component name under a non-default version'),
 ('C17', 'msh_component_without_version', 'hl7apy/core.py',
  "            c = Component(datatype='ST', version=self.version,\n                          validation_level=self.validation_level)\n            c.value = value\n            self.add(c)",
  "            c = Component(datatype='ST',\n                          validation_level=self.validation_level)\n            c.value = value\n            self.add(c)",
  'assigning MSH-1/MSH-2 on a message whose version differs from the default version'),
 ('C18', 'validate_ignores_profile', 'hl7apy/core.py',
  "        return Validator.validate(self, reference=getattr(self, 'reference', None), report_file=report_file,",
  "        return Validator.validate(self, reference=None, report_file=report_file,",
  'a message created with a profile that differs from the standard structure'),
 ('C18', 'create_element_reloads_standard_reference', 'hl7apy/core.py',
  "            kwargs = {'reference': reference['ref'],", "            kwargs = {'reference': None if reference['cls'] is Field else reference['ref'],",
  'a profile that retypes a field, child created through traversal or add_field'),
 ('C19', 'group_child_classes_shared', 'hl7apy/core.py',
  "        self.child_classes = {\"SEG\": Segment, \"GRP\": Group}", "        self.child_classes = Group._CC\n        self.child_classes.update({\"SEG\": Segment, \"GRP\": Group})",
  'never differs (placeholder)'),
]


def sh(cmd, **kw):
    return subprocess.run(cmd, shell=True, stdout=subprocess.PIPE, stderr=subprocess.STDOUT, **kw)


def main():
    if not os.path.isdir(SCRATCH):
        sh('git -C /repo worktree add -q %s HEAD' % SCRATCH)
    head = sh('git -C /repo rev-parse HEAD').stdout.decode().strip()
    sh('git -C %s checkout -q --detach %s && git -C %s checkout -- .' % (SCRATCH, head, SCRATCH))
    report = []
    for prop, name, path, old, new, needs in M:
        if 'placeholder' in needs:
            continue
        sh('git -C %s checkout -- .' % SCRATCH)
        full = os.path.join(SCRATCH, path)
        src = open(full).read()
        if src.count(old) != 1:
            report.append((prop, name, 'SKIP: pattern occurs %d times' % src.count(old)))
            print(report[-1])
            continue
        open(full, 'w').write(src.replace(old, new))
        # private network namespace: tests/test_mllp.py binds fixed ports (other runs on the machine may hold them)
        r = sh("unshare -rn sh -c 'ip link set lo up; cd %s && /venv/bin/python -m pytest -q -x -p no:cacheprovider "
               "--timeout=900 2>&1 | tail -1'" % SCRATCH)
        tail = r.stdout.decode().strip()
        ok = '353 passed' in tail
        d = os.path.join(VERIF, 'mutants', prop)
        os.makedirs(d, exist_ok=True)
        target = os.path.join(d, name + '.patch')
        if ok:
            diff = sh('git -C %s diff' % SCRATCH).stdout.decode()
            open(target, 'w').write(diff)
            json.dump({'property': prop, 'name': name, 'needs': needs, 'base': head, 'tests': tail},
                      open(os.path.join(d, name + '.json'), 'w'), indent=1)
        elif os.path.exists(target):
            os.remove(target)
        report.append((prop, name, 'kept' if ok else 'DROPPED (tests: %s)' % tail))
        print(report[-1], flush=True)
    sh('git -C %s checkout -- .' % SCRATCH)


if __name__ == '__main__':
    main()
