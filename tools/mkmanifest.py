#!/venv/bin/python
"""Regenerates /verif/MANIFEST.json from the table below (one entry per claimed property)."""
import json
import os

HERE = os.path.dirname(os.path.dirname(os.path.abspath(__file__)))

CHECKS = {
    'C01': dict(
        technique='runtime monitoring: identity oracle at the parse/encode boundary over table-driven and seeded workloads',
        category='exploration', design='DESIGN.md §4 C01',
        text='Every defined field/component/sub-component position of every version is round-tripped alone (exhaustive), '
             'then seeded canonical multi-field segments and whole messages generated from the structure tables (default and custom '
             'delimiter sets, unknown structure names, Z and foreign segments, MSH-12 with components, plain punctuation and typed '
             'boundary literals as leaf data); the monitor compares parse(text).to_er7() with text. Held-on-what-was-observed, '
             'not a proof.',
        note='trusts tables.py row reader, er7ref canonicality predicate and the generators staying inside the canonical domain'),
    'C02': dict(
        technique='runtime monitoring: reference tokenizer over exhaustive table-row sweep',
        category='exploration', design='DESIGN.md §4 C02',
        text='All field rows (x2 levels), component rows and sub-component rows of all 12 versions are populated by name, '
             'encoded, tokenised by an independent tokenizer and parsed back; the finite table space is enumerated '
             'completely, open-ended segments up to N indices (by name, parsed, and assigned as text), VARIES_n components of every '
             'varies field, component gaps; every populated position is then re-assigned with an element that must be refused, '
             'and another object of the same component name has its datatype overridden first; a site shard sets default delimiters and '
             'then the default version, and encodes repeated and single fields with the own and with a given delimiter set.',
        note='trusts er7ref tokenizer and tables.py; witness literal per base datatype'),
    'C03': dict(
        technique='runtime monitoring: conservation check over unique-token messages (reference tokenizer on input and output)',
        category='exploration', design='DESIGN.md §4 C03',
        text='Messages made of in-structure, foreign, Z and repeated segment lines with fields/components beyond the defined '
             'counts are parsed with find_groups on and off; every leaf is a unique token, so any loss, duplication or '
             'reordering of segments or leaves, and any leaf changing place inside its field, is attributed directly by comparing '
             'tokenised input and output; v2.7+ messages alternate with and without a truncation character; profiles that '
             'truncate a segment or the datatype of a field must refuse or conserve the later fields / components; blanks around the '
             'text of the first field are data.',
        note='trusts er7ref tokenizer; an HL7apyException counts as surfaced'),
    'C04': dict(
        technique='runtime monitoring: icontract post-condition on the real Validator.validate + mutation oracle over API-built conforming instances',
        category='exploration', design='DESIGN.md §4 C04',
        text='For every usable message structure a conforming instance is built through the public API from the tables; it must '
             'validate, and each single-point mutation (remove a required child, exceed a maximum, add a foreign child, add an '
             'unknown element; at message, group, segment and field level) must be rejected with an error naming the element. A '
             'contract on Validator.validate checks on every call that encoding and shape are unchanged and is_valid <=> no errors; '
             'the harness compares the calling forms (repeat, raising form = first error, report written to a StringIO, to a '
             'write-only object and to a path; forced validation of parse_message with and without a profile).',
        note='instance builder is independent of parser and validator; structures holding a choice group or a pseudo segment '
             'are judged differentially only (removing the only occurrence of a required child must add the matching error); '
             'every instance carries a Z segment with version-specific base datatypes and runs under a far default version'),
    'C05': dict(
        technique='runtime monitoring: differential lock-step execution under STRICT and TOLERANT with validator cross-check',
        category='exploration', design='DESIGN.md §4 C05',
        text='Segments with valid/invalid/over-long literals of every base datatype, messages generated from the structure '
             'tables (with foreign and Z segments) and bounded API histories run under both levels; whenever STRICT accepts, '
             'TOLERANT must accept with the same encoding and validation report and the STRICT element must draw no validator '
             'error but missing required children; a walker checks every STRICT-accepted tree against the table maxima; direct '
             'probes check the STRICT refusals the statement lists (incl. second children of base-datatype positions, non-ASCII '
             'digits, over-long signed numerics, stale traversal handles, withdrawn fields).',
        note='reports compared as error/warning string lists'),
    'C06': dict(
        technique='runtime monitoring: icontract post-condition on the real TextualDataType.to_er7 + reference escaper over exhaustive string grids',
        category='exploration', design='DESIGN.md §4 C06',
        text='Every string up to a length bound over {delimiters, escape, H E F L, ordinary chars} is encoded by the real '
             'textual classes under the default and seeded random delimiter sets; a contract on to_er7 and a boundary oracle '
             'check delimiter-safety, sequence membership of every escape char, idempotence, the fixed point on well-formed '
             'text, and count preservation of datatype-object assignment inside messages and parentless segments; related sets '
             '(roles exchanged, only FIELD / ESCAPE / TRUNCATION changed) follow each other in one process; report-sized leaves; '
             'the textual leaf substituted for invalid non-textual values under TOLERANT; leaves created with highlights= (reference '
             'with the markers around the raw ranges, re-encoded under a second escape character).',
        note='trusts er7ref.well_formed/ref_escape; CR not in the alphabet'),
    'C07': dict(
        technique='runtime monitoring: reference tokenizer + descendant walk over seeded random delimiter sets (builder and parser paths)',
        category='exploration', design='DESIGN.md §4 C07',
        text='For seeded random sets of 5/6 distinct punctuation delimiters and every version, a message with a known shape '
             '(2 repetitions x components x 2 sub-components) is built through Message(...) and parsed from text; the tokenizer '
             'run with that set must reproduce the shape, every separator must come from the set, MSH-1/2 must spell it, '
             'encoding_chars must read back equal on every descendant, re-parsing must give the same set and encoding, '
             'truncation is emitted iff supplied (also after a text declaring the other choice is assigned), invalid sets must raise '
             'InvalidEncodingChars; unknown structure names, MSH-12 with components and a subtree prepared detached and then '
             'added are governed by the message set too.',
        note='pool = punctuation minus . and _'),
    'C08': dict(
        technique='runtime monitoring: generator-prescribed group tree vs parsed tree, with soundness/flattening/equivalence/determinism monitors',
        category='exploration', design='DESIGN.md §4 C08',
        text='Instances of every usable message structure (required-only, all-children, random, repeated groups) are emitted '
             'together with the group path of every line; parsing with find_groups must give declared children only, flatten to '
             'the input lines, encode like find_groups=False, be deterministic, and - for unambiguous instances - reproduce '
             'exactly the prescribed tree and validate; Z segments between the lines, a restating profile, and the same text '
             'assigned to an unnamed / named Message must give the same tree; structure names are swept across versions in one process.',
        note='prescribed tree comes from the generator, not from a re-implementation of the search'),
    'C09': dict(
        technique='runtime monitoring: lock-step execution against an ordered-list reference model over operation histories',
        category='exploration', design='DESIGN.md §4 C09',
        text='Histories of set/add/delete/remove/copy operations (by name, long name, position, index; from proxies and from '
             'elements of another parent) run on real segments, fields and messages of every version while a plain ordered-list '
             'model executes the same history; after every operation to_er7() must equal the model encoding. Exhaustive for short '
             'histories over a reduced alphabet, seeded random up to length 30; worlds with custom delimiters, open-ended segments, '
             'children-view spellings (children[i] = x, children.insert), refused operations inside histories; group copies '
             'between messages (custom delimiters, profiles, Z messages).',
        note='the model is the ordered-list semantics of the statement; operations are generated state-aware to be valid'),
    'C10': dict(
        technique='runtime monitoring: structural invariants I1-I6 asserted at a hook after every library call of random API histories',
        category='exploration', design='DESIGN.md §4 C10',
        text='Random histories (valid edits, re-attachment, double add, own-repetition assignment, parent= construction, list-view '
             'deletions, shadow reads, value/children assignment, rejected calls) on segments, fields and messages of every '
             'version and both levels; after every call, successful or rejected, a walker asserts parent/lister agreement, '
             'single listing, index/list agreement, view agreement, shadow-children separation and version/level uniformity; '
             'also parent setter / constructor attachment, datatype objects by name, children lists re-using or borrowing '
             'children, trees built by the parser.',
        note='walker reads __dict__/children.list only'),
    'C11': dict(
        technique='runtime monitoring: deep-snapshot purity monitor around read chains and exact-materialisation check around the first write',
        category='exploration', design='DESIGN.md §4 C11',
        text='Read chains of depth 1-4 (by name, case variants, long name, positional path) are executed three times through '
             'attribute access, len, repr, iteration, indexing, to_er7 and validate on segments and messages of every version; '
             'encoding, public children (with identities) and validation report must not change. A terminal write must create '
             'exactly the chain elements, once each, plus descendants of the last one, and the tokenizer must find the value at '
             'the chain position and nothing else; then delete, re-read, re-write, read back and write again through the same '
             'spellings; open-ended segments (reads below and beyond the last field), Z segments reached by traversal, segments '
             'moved into a message with other delimiters.',
        note='public children = children.list / indexes; tokenizer decides positions'),
    'C12': dict(
        technique='runtime monitoring: deep-snapshot comparison around every rejected library call (fault enumeration over reachable states)',
        category='fault_enumeration', design='DESIGN.md §4 C12',
        text='Every rejection cause (wrong class/name, foreign element, level/version mismatch via add and via assignment, '
             'cardinality overflow, invalid value, absent deletions, datatype change on populated elements, foreign value text, '
             'children=[ok,bad], non-element) is injected at states reached by bounded histories; a guard snapshots all trees '
             'before each library call and, when it raises, requires equal snapshots and an unchanged parent pointer of the '
             'offered child; open-ended segments are separate targets (add, constructor, parent setter, children list, proxy '
             'value, segment text), snapshots hold to_er7() with and without trailing children.',
        note='snapshot = encoding, classes, names, datatypes, leaf values, identity and order of listed children'),
    'C13': dict(
        technique='runtime monitoring: three-valued lexical-grammar oracle over exhaustive string / time / offset / calendar grids',
        category='exploration', design='DESIGN.md §4 C13',
        text='datatype_factory and SubComponent are driven with every string up to a bound over digits . + - blank e, full '
             'time-of-day, offset and calendar grids and over-long values, for every version and both levels; an independent '
             'HL7 grammar decides membership, re-encoding is compared with the input text / number; a hostile shard repeats '
             'edge values (29-45 significant digits, signed maxima, long invalid text) under default level STRICT and a '
             'decimal context of precision 6.',
        note='trusts lexref; strings HL7 does not settle are not judged for acceptance'),
    'C14': dict(
        technique='runtime monitoring: object-identity oracle over an exhaustive sweep of spellings per table row',
        category='exploration', design='DESIGN.md §4 C14',
        text='Every field row, component row and leaf sub-component row of every version is written through one spelling and '
             'read / deleted through all others (HL7 name and unique long name in lower, upper and mixed case; positional paths '
             'from the field); the element reached must be the same object. Names of other parents and indices beyond the '
             'table must raise ChildNotFound/ChildNotValid and create nothing; with three repetitions every spelling lists the '
             'children in the parent order; elements attached elsewhere are copied through every spelling; the same on fields '
             'overridden to another datatype.',
        note='tables.py decides which long names are unique / usable'),
    'C15': dict(
        technique='runtime monitoring: exception-class monitor at the entry points under a seeded mutation fuzzer',
        category='exploration', design='DESIGN.md §4 C15',
        text='Valid messages of all versions (generated from the structure tables) are mutated (truncation at every byte, '
             'delimiter edits, header surgery, garbled/Z segment names, CR/LF variants, junk) and fed to parse_message '
             '(both levels, find_groups on/off) and get_message_type; whatever parses must encode and validate to a report. '
             'Leaks are keyed by (stage, exception type, innermost hl7apy function). Every field row of every segment is '
             'populated with a hostile shape and with 14 components x 3 sub-components, every alternative of every choice structure is sent once and twice in a row, and pushed through the same stages; optional arguments of parse_message at '
             'their edge values; reports written to a write-only object; the thorough tier adds a coverage-guided atheris session.',
        note='allowed: result, HL7apyException subclass, ValueError under STRICT'),
    'C16': dict(
        technique='runtime monitoring: offline history checker over client-boundary and handler events, with socketpair chunk control and concurrent TCP stress',
        category='exploration', design='DESIGN.md §4 C16',
        text='Every splitting of a short frame into <= 3 TCP writes (exhaustive) and seeded splittings of long / multi-byte frames '
             'are delivered with exact chunk boundaries through a socketpair into the real server object; 2-64 simultaneous '
             'loopback clients with distinct messages run under a 1 us switch interval with delays inside reply(); faults '
             '(no start block, close at every prefix, stall beyond the timeout, undecodable bytes, junk). Per connection the '
             'checker requires exactly one invocation of the right handler with the framed text, the client receiving exactly '
             'that reply (70 kB - 20 MB replies included), built with its registered extra arguments, then close; malformed input: '
             'no handler, close; payloads with LF / CR LF, line-break-like characters in the header, five-character MSH-2; '
             'handlers registered to raise hand their exception to the ERR handler; request handler classes with their own codec '
             'and replies echoing non-ASCII text.',
        note='handlers are harness classes passed to MLLPServer; stall verdict is not time-based'),
    'C17': dict(
        technique='runtime monitoring: differential execution of an explicit-argument call corpus across default configurations',
        category='exploration', design='DESIGN.md §4 C17',
        text='About 3,000 parser / constructor / encoder / validator / factory calls that name version, level and encoding '
             'characters (all versions, both levels, datatypes whose base/complex status differs between versions) are run under '
             'the baseline and under 12 default versions x 2 levels x 3 default delimiter sets (one carrying TRUNCATION); outcomes must be identical, and '
             'elements created beforehand are re-observed after every change of the defaults; the three setters are called in rotating order and read back; valued elements of every base datatype are retyped and re-valued. Consultations of the '
             'get_default_* bindings are counted as diagnostic evidence.',
        note='parentless to_er7() always receives explicit characters; text assignment on parentless elements is delimiter-free'),
    'C18': dict(
        technique='runtime monitoring: differential against synthesised profiles whose single edit has known observable consequences',
        category='exploration', design='DESIGN.md §4 C18',
        text='Profiles are synthesised from the standard structures by one edit (identity, tighten/require/forbid a child, swap a '
             'field datatype); the datatype and cardinality seen by elements created through parsing, traversal and add_*, and '
             'the validate() verdicts on standard-only / profile-only instances must follow the profile; identity changes nothing; '
             'missing structure and legacy profile raise the stated exceptions; ITI-21 cardinalities are reported; a local (Z) segment '
             'described by the profile; a sub-component forbidden inside a composite component; also a segment '
             'inside a group limited to two, a minimum of two, text / proxy / whole-message assignment under default and custom '
             'delimiters.',
        note='edited children are top-level, uniquely named segments, their leaf fields, and repeatable segments inside top-level groups'),
    'C19': dict(
        technique='runtime monitoring: sequential-reference comparison under stress, sys.monitoring yield injection, enumerated baton schedules and cold-start schedules in fresh processes',
        category='exploration', design='DESIGN.md §4 C19',
        text='A corpus of parse/build/encode/validate/factory calls over all versions is compared with its sequential results '
             'under (a) 2-16 threads at a 1 us switch interval, (b) seeded yield injection at LINE events concentrated on the '
             'functions touching process-wide state, (c) a deterministic two-thread baton scheduler with every single hand-over at '
             'anchor events of warm calls, (d) fresh processes in which the first user of each version is pre-empted at the first '
             'hit of each distinct anchor location (lazy imports, table construction, first lookups), followed by a datatype '
             'override in one thread and a parse in another, and preceded by two core-only calls made before anything imports the parser - a pair also run alone with a hand-over at every distinct location it passes (module bodies included); every cold call encodes a leaf holding every delimiter; warm calls share one Z segment name with field numbers of their own. Baton plans switch at the first and last visit of every distinct '
             'anchor location and include two-switch schedules; anchors = functions touching module-level containers, globals or '
             'class attributes.',
        note='line-granularity interleavings under the GIL; reference of cold schedules computed in the parent process'),
}

ORDER = sorted(CHECKS)


def main():
    checks = []
    for pid in ORDER:
        c = CHECKS[pid]
        checks.append({
            'property_id': pid,
            'quick_cmd': './check %s --tier quick' % pid,
            'thorough_cmd': './check %s --tier thorough' % pid,
            'evidence_file': '/verif/evidence/%s.json' % pid,
            'replay_cmd_template': './check %s --replay {path}' % pid,
            'engine': 'hl7mon',
            'level_claimed': {'category': c['category'], 'text': c['text'], 'design_ref': c['design']},
            'level_note': c['note'],
            'technique': c['technique'],
        })
    all_ids = ['C%02d' % i for i in range(1, 20)]
    na = [{'property_id': p, 'reason': NOT_APPLICABLE.get(p, 'check not built yet in this round (planned: DESIGN.md §4); not claimed until its monitor is calibrated')}
          for p in all_ids if p not in CHECKS]
    man = {
        'version': 1,
        'setup_cmd': '/venv/bin/pip install --quiet --no-index --find-links /opt/veriftools/wheels --target /verif/.deps icontract deal atheris || true',
        'hooks': {
            'guard': 'HL7APY_VERIF',
            'enable': 'unused: all instrumentation is external (depth-tracked wrappers, icontract contracts, sys.monitoring); '
                      'checks import the working tree named by HL7APY_REPO (default /repo) directly',
            'baseline_off_cmd': 'cd /repo && /venv/bin/python -m pytest -ra -q -p no:cacheprovider --timeout=900 --continue-on-collection-errors',
            'source_commits': [],
            'add_only': True,
        },
        'engines': [{'name': 'hl7mon', 'path': '/verif/hl7mon', 'serves_properties': ORDER,
                     'kind_free_text': 'runtime monitors (reference oracles, contracts, history checkers, schedule control) '
                                       'driven by table-derived and seeded workloads; sharded subprocess runner'}],
        'checks': checks,
        'notes': 'Known findings: /verif/known_findings.json. Exit 0 held / 1 VIOLATION / 2 INCONCLUSIVE. See DESIGN.md.',
        'not_applicable': na,
    }
    with open(os.path.join(HERE, 'MANIFEST.json'), 'w') as f:
        json.dump(man, f, indent=1)
    print('wrote MANIFEST.json with %d checks, %d not claimed' % (len(checks), len(na)))


NOT_APPLICABLE = {}

if __name__ == '__main__':
    main()
