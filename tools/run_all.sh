#!/bin/bash
# tools/run_all.sh <tier> <seed> [ids...]  - runs checks one after the other, one summary line each
tier=${1:-quick}; seed=${2:-0}; shift; shift
ids=${@:-C01 C02 C03 C04 C05 C06 C07 C08 C09 C10 C11 C12 C13 C14 C15 C16 C17 C18 C19}
cd "$(dirname "$0")/.."
for id in $ids; do
  out=$(./check $id --tier $tier --seed $seed 2>&1); rc=$?
  echo "== $id rc=$rc $(echo "$out" | grep -v '^KNOWN-FINDING\|^VIOLATION\|^INCONCLUSIVE' | tail -1)"
  echo "$out" | grep '^VIOLATION\|^INCONCLUSIVE' | head -5 | cut -c1-400
done
