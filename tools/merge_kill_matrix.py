import json,glob,os
kp='/verif/mutants/KILL_MATRIX.json'
k=json.load(open(kp))
res={(r['property'],r['patch']):r for r in k['results']}
def parse_try(path):
    s=open(path).read(); return json.loads(s[s.index('{'):])
# ported six
for name in ('C09-2','C09-4','C09-7','C10-2','C12-7','C12-8'):
    p='/tmp/ported/%s.try'%name
    if not os.path.exists(p): print('pending',name); continue
    d=parse_try(p); prop=name.split('-')[0]
    c=d['checks'][prop]
    for key in list(res):
        if key[1]=='seeded:'+name: del res[key]
    res[(prop,'seeded:'+name)]={'property':prop,'patch':'seeded:'+name,'checks':{prop:{'exit':c['exit'],'violations':c['violations'],'first':(c['first'] or '')[:260]}},
        'caught_by_own_check':c['exit']==1 and c['violations']>0,'caught_by':d['caught_by'],'run_by':'tools/try_seeded.py at /repo 9b2652a (re-based patch)'}
# round 7
for mp in sorted(glob.glob('/verif/seeded/*-14/meta.json')):
    m=json.load(open(mp)); name=os.path.basename(os.path.dirname(mp))
    owner=m['property'] if m['property'] in m['caught_by'] else m['caught_by'][0]
    if any(key[1]=='seeded:'+name for key in res): continue
    cr=m['check_results'][owner]
    res[(owner,'seeded:'+name)]={'property':owner,'patch':'seeded:'+name,'checks':{owner:{'exit':cr['exit'],'violations':1 if cr['first_violation'] else 0,'first':(cr['first_violation'] or '')[:260]}},
        'caught_by_own_check':cr['exit']==1 and bool(cr['first_violation']),'caught_by':m['caught_by'],'run_by':'tools/try_seeded.py (round-7 confirmation run, same command as selftest.py)'}
merged=sorted(res.values(),key=lambda r:(r['property'],r['patch']))
k['results']=merged; k['caught']=sum(1 for r in merged if r.get('caught_by_own_check')); k['total']=len(merged)
k['note']='rows of C09, C10, C12 recomputed by selftest.py at /repo 9b2652a; rows of the other properties from the full run at 43fe06f; rows marked run_by come from tools/try_seeded.py'
json.dump(k,open(kp,'w'),indent=1)
print(k['caught'],k['total'],[r['patch'] for r in merged if not r.get('caught_by_own_check')])
