#!/venv/bin/python
"""Kill matrix: applies every property-breaking patch (mutants/<ID>/*.patch and seeded/<id>/patch*.diff) to a scratch
worktree of /repo (outside /repo and /verif, removed afterwards) and runs the property's check against it with
HL7APY_REPO pointing at the scratch tree.  A patch is *caught* when the check exits 1 with an unlisted VIOLATION.

usage: selftest.py [--tier quick|thorough] [--only C07[,C09]] [--tests] [--all-checks] [--jobs N]
Writes mutants/KILL_MATRIX.json.  Evidence and replay files of these runs go to a scratch directory, never to
/verif/evidence.
"""
import argparse
import concurrent.futures
import glob
import json
import os
import shutil
import subprocess
import sys
import time

VERIF = os.path.dirname(os.path.abspath(__file__))
SCRATCH_ROOT = '/var/tmp/hl7self'


def sh(cmd, **kw):
    return subprocess.run(cmd, shell=True, stdout=subprocess.PIPE, stderr=subprocess.STDOUT, **kw)


def patches(only):
    out = []
    for p in sorted(glob.glob(os.path.join(VERIF, 'mutants', 'C*', '*.patch'))):
        out.append((os.path.basename(os.path.dirname(p)), 'mutant:' + os.path.basename(p)[:-6], p))
    for d in sorted(glob.glob(os.path.join(VERIF, 'seeded', '*'))):
        meta = os.path.join(d, 'meta.json')
        if not os.path.exists(meta):
            continue
        m = json.load(open(meta))
        if m.get('neutralised_by'):
            continue      # a later repository fix made the change harmless (its demonstration exits 0): nothing to catch
        if m.get('not_detectable'):
            continue      # recorded as out of reach of these monitors (DESIGN.md section 9.6), listed in the kill table
        # a seeded change is run against the check(s) recorded as catching it (its own property unless it can only
        # manifest through another property's workload, e.g. a cold-start race seeded under C15 -> C19)
        owner = m['property'] if m['property'] in m.get('caught_by', [m['property']]) else m['caught_by'][0]
        out.append((owner, 'seeded:' + os.path.basename(d), os.path.join(d, 'patch.diff')))
    if only:
        out = [x for x in out if x[0] in only]
    return out


def run_one(slot, prop, name, patch, tier, run_tests, checks):
    tree = os.path.join(SCRATCH_ROOT, 'tree%d' % slot)
    sh('git -C %s checkout -q -- . && git -C %s clean -qfd' % (tree, tree))
    r = sh('git -C %s apply %s' % (tree, patch))
    if r.returncode != 0:
        return {'property': prop, 'patch': name, 'status': 'patch does not apply', 'detail': r.stdout.decode()[-300:]}
    res = {'property': prop, 'patch': name, 'checks': {}}
    if run_tests:
        t = sh("unshare -rn sh -c 'ip link set lo up; cd %s && /venv/bin/python -m pytest -q -x -p no:cacheprovider "
               "--timeout=900 2>&1 | tail -1'" % tree)
        res['tests'] = t.stdout.decode().strip()
    env = dict(os.environ, HL7APY_REPO=tree, VERIF_EVIDENCE_DIR=os.path.join(SCRATCH_ROOT, 'evidence%d' % slot),
               VERIF_REPLAY_DIR=os.path.join(SCRATCH_ROOT, 'replay%d' % slot))
    for c in checks:
        t0 = time.time()
        p = subprocess.run([os.path.join(VERIF, 'check'), c, '--tier', tier, '--jobs', '4'], env=env, cwd=VERIF,
                           stdout=subprocess.PIPE, stderr=subprocess.STDOUT)
        out = p.stdout.decode()
        viol = [l for l in out.splitlines() if l.startswith('VIOLATION')]
        res['checks'][c] = {'exit': p.returncode, 'violations': len(viol), 'first': viol[0][:260] if viol else None,
                            'wall_s': round(time.time() - t0, 1)}
    own = res['checks'].get(prop, {})
    res['caught_by_own_check'] = own.get('exit') == 1 and own.get('violations', 0) > 0
    res['caught_by'] = sorted(c for c, v in res['checks'].items() if v['exit'] == 1 and v['violations'])
    sh('git -C %s checkout -q -- . && git -C %s clean -qfd' % (tree, tree))
    return res


def main():
    ap = argparse.ArgumentParser()
    ap.add_argument('--tier', default='quick')
    ap.add_argument('--only', default='')
    ap.add_argument('--tests', action='store_true')
    ap.add_argument('--all-checks', action='store_true', help='run every check against every patch, not only its own')
    ap.add_argument('--jobs', type=int, default=4)
    args = ap.parse_args()
    only = set(x for x in args.only.split(',') if x)
    items = patches(only)
    os.makedirs(SCRATCH_ROOT, exist_ok=True)
    all_ids = ['C%02d' % i for i in range(1, 20)]
    try:
        for s in range(args.jobs):
            tree = os.path.join(SCRATCH_ROOT, 'tree%d' % s)
            if not os.path.isdir(tree):
                r = sh('git -C /repo worktree add -q --detach %s HEAD' % tree)
                if r.returncode != 0:
                    print(r.stdout.decode())
                    return 2
        results = []
        with concurrent.futures.ThreadPoolExecutor(max_workers=args.jobs) as ex:
            free = list(range(args.jobs))
            futs = {}
            pending = list(items)

            def submit():
                while pending and free:
                    slot = free.pop()
                    prop, name, patch = pending.pop(0)
                    f = ex.submit(run_one, slot, prop, name, patch, args.tier, args.tests,
                                  all_ids if args.all_checks else [prop])
                    futs[f] = slot
            submit()
            while futs:
                done, _ = concurrent.futures.wait(list(futs), return_when=concurrent.futures.FIRST_COMPLETED)
                for f in done:
                    free.append(futs.pop(f))
                    r = f.result()
                    results.append(r)
                    print('%-5s %-55s %s %s' % (r['property'], r['patch'],
                                                'CAUGHT' if r.get('caught_by_own_check') else 'MISSED',
                                                r.get('caught_by', r.get('status'))), flush=True)
                submit()
        results.sort(key=lambda r: (r['property'], r['patch']))
        matrix_path = os.path.join(VERIF, 'mutants', 'KILL_MATRIX.json')
        old = {}
        if os.path.exists(matrix_path) and only:
            old = {(r['property'], r['patch']): r for r in json.load(open(matrix_path))['results']}
        for r in results:
            old[(r['property'], r['patch'])] = r
        merged = sorted(old.values(), key=lambda r: (r['property'], r['patch'])) if only else results
        json.dump({'tier': args.tier, 'base': sh('git -C /repo rev-parse HEAD').stdout.decode().strip(),
                   'caught': sum(1 for r in merged if r.get('caught_by_own_check')), 'total': len(merged),
                   'results': merged}, open(matrix_path, 'w'), indent=1)
        missed = [r for r in results if not r.get('caught_by_own_check')]
        print('%d/%d caught by their own check' % (len(results) - len(missed), len(results)))
        return 1 if missed else 0
    finally:
        for s in range(args.jobs):
            sh('git -C /repo worktree remove --force %s' % os.path.join(SCRATCH_ROOT, 'tree%d' % s))
        shutil.rmtree(SCRATCH_ROOT, ignore_errors=True)
        sh('git -C /repo worktree prune')


if __name__ == '__main__':
    sys.exit(main())
