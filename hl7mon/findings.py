"""Known-findings file: loader and classifier.

known_findings.json lists genuine defects of crs4/hl7apy that are recorded rather than repaired.
Every entry is keyed by *mechanism*: the `cause` string a check computes from the witness of a
violation, optionally narrowed to an explicit set of table rows (`rows`) for the exhaustive
table sweeps, so that a different violation of the same property is still reported.
The file is never written at run time.  `fixed` entries document repaired defects and suppress
nothing.
"""
import json
import os
import re

from . import env

PATH = os.path.join(env.VERIF, 'known_findings.json')


def load(path=PATH):
    if not os.path.exists(path):
        return {}
    with open(path) as f:
        data = json.load(f)
    out = {}
    for e in data.get('findings', []):
        e = dict(e)
        m = e.get('match', {})
        if 'rows' in m:
            m['_rows'] = set(m['rows'])
        if 'row_regex' in m:
            m['_row_re'] = re.compile(m['row_regex'])
        out[(e['property'], e['key'])] = e
    return out


def match_one(prop_id, cause, row, known):
    for (pid, key), e in known.items():
        if pid != prop_id:
            continue
        m = e.get('match', {})
        causes = m.get('causes') or [m.get('cause')]
        if cause not in causes:
            continue
        if '_rows' in m and row not in m['_rows']:
            continue
        if '_row_re' in m and not (row is not None and m['_row_re'].search(row)):
            continue
        return key
    return None


def classify(prop_id, violations, counts, known):
    """-> (unknown violations, one per distinct (cause,row); {finding key: observations})"""
    by_key = {}
    for v in violations:
        by_key.setdefault((v['cause'], v.get('row')), v)
    unknown, hits = [], {}
    for (cause, row), n in sorted(counts.items(), key=lambda kv: (str(kv[0][0]), str(kv[0][1]))):
        key = match_one(prop_id, cause, row, known)
        if key is None:
            v = by_key.get((cause, row)) or {'cause': cause, 'row': row, 'detail': 'sample not kept',
                                             'case': {'note': 'sample not kept (cap)'}}
            unknown.append(v)
        else:
            hits[key] = hits.get(key, 0) + n
    return unknown, hits
