"""C13 - base datatype values: acceptance matches HL7 syntax and text is preserved.

Monitor: lexref (three-valued HL7 lexical grammar) decides membership; datatype_factory under STRICT must accept
exactly the members and re-encode them to the same text / number; under TOLERANT nothing raises and the text comes
back verbatim; over-long values raise MaxLengthReached under STRICT.  The same is checked through SubComponent.
"""
import itertools
from decimal import Decimal

from .. import tables, lexref, gen

ID = 'C13'
LEVEL = 'exploration'
RULE = ('exhaustive strings over {0,1,2,9,".","+","-"," ","e"} up to a length bound, the full time-of-day grid (HH 00-24 x MM '
        '00-60 x SS 00-61 x 0-5 fraction digits), the offset grid (+/- x 00-15 x 00-60), the calendar grid (boundary years x months '
        '00-13 x days 00-32), DTM concatenations, over-long values; each against DT/TM/DTM/NM/SI of a version, STRICT and '
        'TOLERANT, via datatype_factory and via SubComponent; non-trivial = non-empty string; distinct = (datatype, version, '
        'level, entry point, string)')
ASSUMPTIONS = [
    'lexref is the HL7 lexical definition; strings it leaves unspecified (".5", "5.", "+5" for SI, offsets beyond +14/-12, '
    'years below 1000) are judged only for crash-freedom and TOLERANT preservation',
    'ASCII digits; the letter of the alphabet is "e" (reaches exponent notation), plus "a" in the thorough tier',
]

ALPHA = '0129.+- e'
TYPES = ('DT', 'TM', 'DTM', 'NM', 'SI')


def plan(tier, seed):
    L = 5 if tier == 'quick' else 6
    alpha = ALPHA if tier == 'quick' else ALPHA + 'a'
    specs = []
    for a in alpha:
        for b in alpha:
            specs.append({'kind': 'grid', 'alpha': alpha, 'L': L, 'first': a + b, 'version': '2.5'})
    vs = tables.versions()
    for v in vs:
        specs.append({'kind': 'grids', 'version': v})
        specs.append({'kind': 'short', 'version': v, 'alpha': alpha, 'L': 4})
        specs.append({'kind': 'hostile', 'version': v})
    return specs


def has_type(version, dt):
    return dt in tables.base_datatypes(version)


def classify(dt, level, s, outcome, out):
    """mechanism keys for the known defect families; anything else keeps a generic cause"""
    mem = lexref.member(dt, s)
    if dt in ('NM', 'SI'):
        core = s.strip()
        if level == 'TOLERANT' and outcome == 'ok':
            try:
                same = Decimal(out) == Decimal(core) if dt == 'NM' else int(out) == int(core)
            except Exception:
                same = False
            if same and core == s and lexref.member(dt, s) in (True, None) and not lexref.plain(s) \
                    and 'e' not in s.lower() and lexref.plain(out):
                return 'tolerant-nonplain-number-normalised'
    return None


def judge(dt, version, s, rec, via='factory'):
    from hl7apy.factories import datatype_factory
    from hl7apy.exceptions import MaxLengthReached, HL7apyException
    from hl7apy import core
    mem = lex = lexref.member(dt, s)
    out_of_domain = False
    if not s.isascii():
        mem = None          # the quantifier's alphabet is ASCII: STRICT acceptance is not judged (TOLERANT keeps any text)
    if dt in ('DT', 'DTM') and s[:4].isdigit() and len(s) >= 4 and int(s[:4]) < 1000:
        mem, out_of_domain = None, True          # years below 1000 are outside the quantifier
    for level, lname in ((1, 'STRICT'), (2, 'TOLERANT')):
        rec.evaluation((dt, version, lname, via, s), nontrivial=bool(s))
        case = {'kind': 'value', 'datatype': dt, 'version': version, 'level': lname, 'via': via, 'value': s}
        outcome, out, exc = 'ok', None, None
        try:
            if via == 'factory':
                o = datatype_factory(dt, s, version, level)
                out = o.to_er7()
            else:
                sc = core.SubComponent(datatype=dt, value=s, version=version, validation_level=level)
                out = sc.to_er7()
        except MaxLengthReached as e:
            outcome, exc = 'maxlen', e
        except ValueError as e:
            outcome, exc = 'valueerror', e
        except HL7apyException as e:
            outcome, exc = 'hl7:%s' % type(e).__name__, e
        except Exception as e:
            outcome, exc = 'crash:%s' % type(e).__name__, e
        rec.count('judged_%s' % lname)
        if outcome.startswith('crash') or outcome.startswith('hl7:'):
            rec.violation('unexpected-exception:%s' % outcome, case, {'exc': repr(exc)[:200]})
            continue
        if s == '':
            continue
        if lname == 'TOLERANT':
            if outcome != 'ok':
                rec.violation('tolerant-rejected', case, {'outcome': outcome, 'exc': repr(exc)[:200]})
            elif out != s and not out_of_domain:
                rec.violation(classify(dt, lname, s, outcome, out) or 'tolerant-text-not-preserved', case, {'out': out})
            continue
        # STRICT
        if dt in lexref.MAXLEN and mem is not False and lex is not False and len(s) > lexref.MAXLEN[dt]:
            # longer than the maximum as written; when the number's plain form is longer too it must be refused,
            # otherwise (superfluous sign / leading zeros) the statement does not settle it
            canon = s.lstrip('+')
            neg = canon.startswith('-')
            canon = ('-' if neg else '') + (canon.lstrip('-').lstrip('0') or '0')
            if len(canon) > lexref.MAXLEN[dt]:
                rec.count('overlong_cases')
                if outcome != 'maxlen':
                    rec.violation('overlong-not-rejected', case, {'outcome': outcome, 'out': out})
            else:
                rec.count('unspecified_strings')
            continue
        if mem is None:
            rec.count('unspecified_strings')
            continue
        if mem and outcome != 'ok':
            rec.violation('strict-rejects-member', case, {'outcome': outcome, 'exc': repr(exc)[:200]})
        elif not mem and outcome == 'ok':
            rec.violation('strict-accepts-nonmember:%s' % nonmember_kind(dt, s), case, {'out': out})
        elif mem and outcome == 'ok':
            rec.count('members_accepted')
            if dt in ('DT', 'TM', 'DTM'):
                if out != s:
                    rec.violation('accepted-value-reencoded-differently', case, {'out': out})
            else:
                try:
                    same = Decimal(out) == Decimal(s)
                except Exception:
                    same = False
                if not same:
                    rec.violation('accepted-number-changed', case, {'out': out})
                elif lexref.plain(s) and out != s:
                    rec.violation('plain-number-text-changed', case, {'out': out})
        else:
            rec.count('nonmembers_rejected')


def nonmember_kind(dt, s):
    if dt in ('NM', 'SI'):
        t = s.strip()
        if t != s and lexref.member(dt, t) in (True, None):
            return 'surrounding-blanks'
        if 'e' in s.lower() and dt == 'NM':
            return 'exponent-or-special'
        if dt == 'SI' and s.startswith('-'):
            return 'negative-sequence-id'
        if '_' in s:
            return 'underscore'
        return 'other-numeric'
    if ' ' in s:
        return 'blank-in-date-time'
    if s.count('+') + s.count('-') > 1:
        return 'repeated-offset'
    return 'other-date-time'


def run_grid(spec, rec):
    alpha, L, first, v = spec['alpha'], spec['L'], spec['first'], spec['version']
    types = [t for t in TYPES if has_type(v, t)]
    n = 0
    for l in range(0, L - len(first) + 1):
        for t in itertools.product(alpha, repeat=l):
            s = first + ''.join(t)
            for dt in types:
                judge(dt, v, s, rec)
            n += 1
    if first == alpha[0] * 2:
        for s in [''] + list(alpha):
            for dt in types:
                judge(dt, v, s, rec)
    rec.count('grid_strings', n)
    rec.sample({'kind': 'grid', 'first': first, 'max_len': L, 'example': first + '9.+'})


def grid_cases():
    # time of day
    for h in range(0, 25):
        for mi in list(range(0, 61, 7)) + [59, 60]:
            for se in (0, 1, 30, 59, 60, 61):
                for fr in ('', '.', '.1', '.12', '.123', '.1234', '.12345'):
                    yield 'tm', '%02d%02d%02d%s' % (h, mi, se, fr)
        for mi in range(0, 61):
            yield 'tm', '%02d%02d' % (h, mi)
        yield 'tm', '%02d' % h
    # offsets
    for base in ('12', '1230', '123059', '123059.1'):
        for sg in '+-':
            for hh in range(0, 16):
                for mm in (0, 1, 30, 59, 60):
                    yield 'tm', '%s%s%02d%02d' % (base, sg, hh, mm)
    for base in ('2020', '202002', '20200229', '2020022913', '202002291359', '20200229135901', '20200229135901.1234'):
        for sg in '+-':
            for hh in range(0, 16):
                for mm in (0, 30, 59, 60):
                    yield 'dtm', '%s%s%02d%02d' % (base, sg, hh, mm)
        yield 'dtm', base + '+0100+0100'
        yield 'dtm', base + '+010'
        yield 'dtm', base + ' '
    # calendar
    for y in (1000, 1900, 2000, 2023, 2024, 2100, 9999):
        for mo in range(0, 14):
            yield 'date', '%04d%02d' % (y, mo)
            for d in range(0, 33):
                yield 'date', '%04d%02d%02d' % (y, mo, d)
        yield 'date', '%04d' % y
    # DTM concatenations
    for d in ('20240229', '20230229', '20201231', '2020123', '202012311'):
        for t in ('', '0', '00', '23', '24', '2359', '2360', '235959', '235960', '235959.9', '235959.99999', '2359.5'):
            for off in ('', '+0000', '-1200', '+1400', '+1500', '-1300', '+0060'):
                yield 'dtm', d + t + off
    for s in ('1234+0100+0100', '2020 1 1', '202011 1', '20200101 1', '2020+0100', '+0100', '12+0100', '1+0100',
              '٢٠٢٠', '２０２０', '2020\n', '\t12', '12 ', ' 12', '1_0', '1_000', '0x10', 'NaN', 'nan', 'Infinity', 'inf',
              '-Infinity', 'sNaN', '1e5', '1E5', '1e-5', '1E+5', '.5', '5.', '+5', '-5', '+0', '-0', '007', '00', '0.0',
              '1.0', '1.50', '-0.5', '+.5', '--5', '5-', '5+', '1,5', '1 5', '٣', '1e', 'e1', '12345', '99999', '00005',
              '1234567890123456', '12345678901234567', '123456789012345678901', '0.1234567890123456', '-123456789012345',
              '-1234567890123456', '99999999999999999999', '0000000000000000005'):
        yield 'misc', s
    for n in (199, 200, 999, 1000, 65536, 65537, 20, 21):
        yield 'len', 'x' * n


def run_grids(spec, rec):
    v = spec['version']
    types = [t for t in TYPES if has_type(v, t)]
    for i, (kind, s) in enumerate(grid_cases()):
        if kind == 'len':
            judge_length(v, s, rec)
            continue
        targets = {'tm': ('TM', 'DTM'), 'date': ('DT', 'DTM', 'TM'), 'dtm': ('DTM', 'TM', 'DT'),
                   'misc': TYPES}[kind]
        for dt in targets:
            if dt in types:
                judge(dt, v, s, rec)
                if i % 5 == 0:
                    judge(dt, v, s, rec, via='subcomponent')
        rec.count('grid_cases')
    rec.seen('versions', v)
    rec.sample({'kind': 'grids', 'version': v, 'examples': ['235960.1234', '20230229', '12+1500', '1234+0100+0100']})


def judge_length(version, s, rec):
    """textual maximum lengths: STRICT raises MaxLengthReached beyond the class limit, TOLERANT keeps the text"""
    from hl7apy.factories import datatype_factory
    from hl7apy.exceptions import MaxLengthReached
    # documented maximum lengths (ST is 999 in v2.6 only)
    limits = {'ST': 999 if version == '2.6' else 199, 'FT': 65536, 'TX': 65536, 'IS': 20, 'GTS': 199}
    for dt, lim in limits.items():
        if not has_type(version, dt):
            continue
        case = {'kind': 'length', 'datatype': dt, 'version': version, 'n': len(s)}
        rec.evaluation((dt, version, 'len', len(s)))
        try:
            out = datatype_factory(dt, s, version, 1).to_er7()
            raised = False
        except MaxLengthReached:
            raised = True
        except Exception as e:
            rec.violation('unexpected-exception:%s' % type(e).__name__, case, {'exc': repr(e)[:100]})
            continue
        if raised != (len(s) > lim):
            rec.violation('overlong-not-rejected' if not raised else 'within-length-rejected', case, {'limit': lim})
        try:
            if datatype_factory(dt, s, version, 2).to_er7() != s:
                rec.violation('tolerant-text-not-preserved', case, {})
        except Exception as e:
            rec.violation('tolerant-rejected', case, {'exc': repr(e)[:100]})
        rec.count('length_cases')


def run_short(spec, rec):
    v = spec['version']
    types = [t for t in TYPES if has_type(v, t)]
    k = 0
    for l in range(1, spec['L'] + 1):
        for t in itertools.product(spec['alpha'], repeat=l):
            s = ''.join(t)
            k += 1
            for dt in types:
                judge(dt, v, s, rec, via='subcomponent' if k % 2 else 'factory')
    rec.seen('versions_short', v)


HOSTILE = ['1' * 29 + '.5', '123456789012345678901234567890.5', '-' + '9' * 40, '0.' + '1' * 35, '1234567.8', '0.000001234567',
           '-1234567890123456', '123456789012345.6', '-123456789012345.6', '1234567890123456', '12345678901234567',
           '-123456789012345', '99999', '100000', '12345',
           # a line feed / blank glued to an otherwise valid value is part of the text: no member, kept verbatim by TOLERANT
           '1230+0100\n', '20200101120000+0100\n', '20200101-0500\n', '1230\n', '2020\n', '12\n', '1\n', '1\r', '\n1',
           '1230+0100\r', '1230+0100 ', '12\t', '1230+0100\x0b', '20200101\x0c', '1\x1c', '12\x85', '1\u2028',
           # digits of other scripts are no digits of the HL7 lexical definitions
           '\u0661\u0662.\u0665', '\uff11\uff12', '\u0663', '-\u0663', '1\u0662', '\u0967\u0968', '12\u00b2', '0.\u0665',
           '\uff12\uff10\uff12\uff10\uff10\uff11\uff10\uff11', '\uff11\uff12\uff13\uff10', '2020010\u0661', '1230+01\u06600',
           '\uff12\uff10\uff12\uff10\uff10\uff11\uff10\uff11\uff11\uff12', '2020\u0660101', '12\uff130', '1230.\u0665',
           'not a number ' * 20, 'x' * 1100, '2020' + 'y' * 300, '12' + ' ' * 250 + '3', '1' * 250, '9' * 1000]


def run_hostile(spec, rec):
    """values at the edges of the numeric representation (more digits than the default decimal precision, maximum lengths
    with a sign or a decimal point) and long invalid texts, judged as usual and again under a hostile process state: default
    validation level STRICT, and a decimal context with a low precision - neither is an input of the conversion"""
    import decimal
    import hl7apy
    v = spec['version']
    types = [t for t in TYPES if has_type(v, t)]
    base_level = hl7apy.get_default_validation_level()
    base_prec = decimal.getcontext().prec
    for state in ('baseline', 'default-level-strict', 'decimal-precision-6'):
        try:
            if state == 'default-level-strict':
                hl7apy.set_default_validation_level(1)
            elif state == 'decimal-precision-6':
                decimal.getcontext().prec = 6
            for k, sv in enumerate(HOSTILE):
                for dt in types:
                    judge(dt, v, sv, rec, via='subcomponent' if k % 2 else 'factory')
                    rec.count('hostile_cases:%s' % state)
        finally:
            hl7apy.set_default_validation_level(base_level)
            decimal.getcontext().prec = base_prec
    rec.seen('versions_hostile', v)


def run_shard(spec, rec):
    {'grid': run_grid, 'grids': run_grids, 'short': run_short, 'hostile': run_hostile}[spec['kind']](spec, rec)


def replay(case, rec):
    if case['kind'] == 'value':
        judge(case['datatype'], case['version'], case['value'], rec, case.get('via', 'factory'))
    else:
        judge_length(case['version'], 'x' * case['n'], rec)


def floors(tier, m):
    out = []
    c = m['counters']
    nv = len(tables.versions())
    if len(m['seen'].get('versions', ())) != nv or len(m['seen'].get('versions_short', ())) != nv:
        out.append('not every version exercised')
    if c.get('grid_strings', 0) < 9 ** 5:
        out.append('string grid incomplete: %s' % c.get('grid_strings'))
    if c.get('members_accepted', 0) < 1000 or c.get('nonmembers_rejected', 0) < 10000:
        out.append('too few decided acceptances: %s' % c)
    if c.get('overlong_cases', 0) < 5 or c.get('length_cases', 0) < 50:
        out.append('over-long clause barely exercised')
    return out
