"""C05 - STRICT accepts a subset of TOLERANT and enforces what validate() checks.

Monitor: differential lock-step execution.  The same text / the same operation history runs under both validation
levels; when STRICT accepts, TOLERANT must accept too, the encodings and validation reports must be equal, and the
STRICT-built element must draw no validator error other than 'Missing required child'.  Direct probes check that STRICT
refuses cardinality overflow, foreign/unknown children, datatype overrides and invalid / over-long base values.
"""
import collections

from .. import tables, er7ref, gen, structref, hist
from . import c01, c09

ID = 'C05'
LEVEL = 'exploration'
RULE = ('(a) in-structure segments of every version with leaves drawn from valid and invalid literals of each base datatype '
        '(boundary values, over-long values), (b) messages generated from the structure tables incl. extra/foreign segments, '
        '(c) bounded add/set/delete/copy histories on segments, fields and messages, each run under STRICT and TOLERANT; '
        '(d) direct STRICT refusals; non-trivial = STRICT accepted (only then is there something to compare); distinct = '
        '(version, text or history)')
ASSUMPTIONS = [
    'validation reports are compared as the lists of error and warning strings',
    'warnings (table membership, length) are not errors: only the error list is constrained for STRICT-accepted elements',
]

VAL = {'ST': ['x', 'a b', 'x' * 250], 'ID': ['A', 'x' * 30], 'IS': ['A', 'x' * 25], 'NM': ['1', '-1.5', 'abc', '1' * 20, '007'],
       'SI': ['1', '12345', 'a', '-1'], 'DT': ['20200101', '2020', '202013', 'x'],
       'DTM': ['20200101', '202001011200', '2020010112+0100', 'bad', '20200101120000.12345'],
       'TM': ['1200', '2500', '12', '1200+0100+0100'], 'TX': ['x'], 'FT': ['x', '\\H\\a\\N\\'], 'TN': ['5551234', 'x'],
       'GTS': ['x'], 'WD': ['x'], 'SNM': ['1', 'x'], 'CM': ['x'], 'varies': ['x', 'a^b']}


def plan(tier, seed):
    n = 500 if tier == 'quick' else 8000
    specs = []
    for v in tables.versions():
        specs.append({'kind': 'segments', 'version': v, 'n': n})
        specs.append({'kind': 'messages', 'version': v, 'n': n // 10})
        specs.append({'kind': 'histories', 'version': v, 'n': n // 4})
    for v in tables.versions():
        specs.append({'kind': 'dupnames', 'version': v})
    specs.append({'kind': 'refusals'})
    return specs


def report(e):
    r = e.validate(return_errors=True)
    return [str(x) for x in r.errors], [str(x) for x in r.warnings]


def leaf(rng, dt):
    return rng.choice(VAL.get(dt, ['x']))


def ftext(rng, v, row):
    if row.kind == 'leaf':
        if rng.random() < 0.06:
            return leaf(rng, row.datatype) + '^' + leaf(rng, row.datatype)    # a second component in a base-datatype field
        return leaf(rng, row.datatype)
    parts = []
    for c in tables.components(v, row.datatype):
        if rng.random() < 0.4 and c.ok:
            if c.kind == 'leaf' or tables.is_base(v, c.datatype):
                if rng.random() < 0.08:
                    # a second sub-component in a base-datatype component
                    parts.append(leaf(rng, c.datatype) + '&' + leaf(rng, c.datatype))
                    continue
                parts.append(leaf(rng, c.datatype))
            else:
                sp = [leaf(rng, s.datatype) if rng.random() < 0.4 and s.kind == 'leaf' else ''
                      for s in tables.components(v, c.datatype)]
                while sp and sp[-1] == '':
                    sp.pop()
                parts.append('&'.join(sp))
        else:
            parts.append('')
    while parts and parts[-1] == '':
        parts.pop()
    return '^'.join(parts)


def compare(strict_thunk, tolerant_thunk, rec, case, sig):
    """run both; judge only when STRICT accepted"""
    from hl7apy.exceptions import HL7apyException
    try:
        a = strict_thunk()
    except (HL7apyException, ValueError) as e:
        rec.evaluation(sig, nontrivial=False)
        rec.count('strict_rejected')
        rec.seen('strict_rejections', type(e).__name__)
        return
    except Exception as e:
        rec.evaluation(sig, nontrivial=False)
        rec.count('strict_crashed')      # C15's business
        return
    rec.evaluation(sig, nontrivial=True)
    rec.count('strict_accepted')
    try:
        b = tolerant_thunk()
    except Exception as e:
        rec.violation('tolerant-rejects-what-strict-accepts:%s' % type(e).__name__, case, {'exc': repr(e)[:200]})
        return
    over = overflows(a, case.get('version') or (case.get('world') or {}).get('version'))
    rec.count('strict_trees_walked')
    if over:
        rec.violation('strict-let-a-child-exceed-its-maximum:%s' % over[0][0], case, {'where': [o[1] for o in over[:3]]})
        return
    ea, eb = a.to_er7(), b.to_er7()
    reordered = False
    if ea != eb:
        cause = classify_enc(case, ea, eb)
        rec.violation(cause, case, {'strict': ea[:300], 'tolerant': eb[:300]})
        if cause != 'group-children-order-differs-by-level':
            return
        reordered = True      # the documented order difference must not hide what the validator says
    try:
        ra, rb = report(a), report(b)
    except Exception as e:
        rec.count('validate_crashed')
        return
    rec.count('reports_compared')
    if ra != rb and not reordered:
        rec.violation('validation-report-differs-by-level', case, {'strict': str(ra)[:300], 'tolerant': str(rb)[:300]})
        return
    other = [e for e in ra[0] if not e.startswith('Missing required child')]
    if other:
        rec.violation('strict-accepted-element-draws-error:%s' % ' '.join(other[0].split()[:2]), case,
                      {'errors': other[:3]})


def overflows(root, v):
    """maximum cardinalities, read from the tables by tables.py, that the STRICT-built tree exceeds:
    a field or component of a base datatype holds one child; a segment holds each field name at most max times; a complex
    field/component holds each component name once"""
    from .. import treeinv
    out = []
    if v is None:
        return out
    for e in treeinv.walk(root):
        d = e.__dict__
        cls = type(e).__name__
        ks = treeinv.kids(e)
        if cls in ('Field', 'Component'):
            dt = d.get('_datatype')
            if dt is not None and dt != 'varies' and tables.is_base(v, dt):
                if len(ks) > 1:
                    out.append(('base-datatype-%s' % cls.lower(), '%s %s of type %s holds %d children' % (cls, d.get('name'), dt,
                                                                                                  len(ks))))
            elif dt in tables.complex_datatypes(v) and d.get('name'):
                byname = collections.Counter(k.__dict__.get('name') for k in ks)
                rows = dict((r.name, r) for r in tables.components(v, dt) if r.ok)
                for n, k in byname.items():
                    if n in rows and rows[n].card[1] not in (-1, None) and k > max(rows[n].card[1], 0):
                        out.append(('component-name', '%s %s holds %s x%d' % (cls, d.get('name'), n, k)))
        elif cls == 'Segment':
            rows = dict((r.name, r) for r in (tables.segments(v).get(d.get('name')) or []) if r.ok)
            byname = collections.Counter(k.__dict__.get('name') for k in ks)
            for n, k in byname.items():
                if n in rows and rows[n].card[1] != -1 and k > rows[n].card[1]:
                    out.append(('field-name', 'Segment %s holds %s x%d (max %d)' % (d.get('name'), n, k, rows[n].card[1])))
    return out


def classify_enc(case, ea, eb):
    """STRICT encodes group children in structure order, TOLERANT in insertion order (documented behaviour): the mechanism
    is recognised only when both encodings hold the same segment lines and the TOLERANT one kept the input order"""
    la, lb = ea.split('\r'), eb.split('\r')
    if sorted(la) == sorted(lb) and la != lb and case.get('kind') == 'message':
        # the documented difference concerns the children the structure lists; runs of adjacent out-of-structure (Z) lines
        # of the input keep their relative order under both levels
        src = [l for l in case['text'].split('\r') if l]
        i = 0
        while i < len(src):
            j = i
            while j < len(src) and src[j][:1] == 'Z':
                j += 1
            run = src[i:j]
            if len(run) >= 2 and len(set(run)) == len(run):
                pos = [la.index(l) for l in run if l in la]
                if pos != sorted(pos):
                    return 'strict-reorders-out-of-structure-segments'
            i = max(j, i + 1)
    if sorted(la) == sorted(lb) and la != lb:
        if case.get('kind') == 'message' and lb != [l for l in case['text'].split('\r') if l]:
            return 'encoding-differs-by-level'
        return 'group-children-order-differs-by-level'
    return 'encoding-differs-by-level'


def run_segments(spec, rec):
    from hl7apy import parser
    v = spec['version']
    rng = gen.rng_for(spec['seed'], 'c05-seg', v)
    segs = sorted(s for s, rows in tables.segments(v).items() if rows and s != 'MSH')
    for i in range(spec['n']):
        seg = rng.choice(segs)
        rows = tables.segments(v)[seg]
        top = max(r.num for r in rows)
        fs = [''] * top
        for r in rows:
            if r.ok and rng.random() < 0.3:
                n = 1 if r.card[1] == 1 or rng.random() < 0.7 else 2
                fs[r.num - 1] = '~'.join(ftext(rng, v, r) for _ in range(n))
        while fs and fs[-1] == '':
            fs.pop()
        text = seg + '|' + '|'.join(fs)
        case = {'kind': 'segment', 'version': v, 'text': text}
        compare(lambda: parser.parse_segment(text, version=v, validation_level=1),
                lambda: parser.parse_segment(text, version=v, validation_level=2), rec, case, ('seg', v, text))
        if i < 1:
            rec.sample(case)
    rec.seen('versions', v)


def run_messages(spec, rec):
    from hl7apy import parser
    v = spec['version']
    rng = gen.rng_for(spec['seed'], 'c05-msg', v)
    msgs = tables.messages(v)
    names = [n for n in sorted(msgs) if structref.usable(v, msgs[n]) and structref.msh9_for(v, n)]
    for i in range(spec['n']):
        name = rng.choice(names)
        lines = structref.emit(msgs[name], rng, rng.choice(['required', 'random']), 2)
        out = []
        for l in lines:
            if l.seg == 'MSH':
                out.append(structref.msh_line(v, name))
            else:
                out.append(structref.conforming_segment_line(v, l.seg, rng.choice(['required', 'required', 'all'])))
        if rng.random() < 0.3:
            out.insert(rng.randint(1, len(out)), rng.choice(['ZZ1|1', out[-1], 'NTE|1|x' if 'NTE' in tables.segments(v) else 'ZZ2|2']))
        elif rng.random() < 0.2:
            # locally defined segments of two names, interleaved: they keep the order they were written in
            k = rng.randint(1, len(out))
            out[k:k] = ['ZA1|1', 'ZB1|2', 'ZA1|3']
        text = '\r'.join(out)
        for fg in (True, False):
            case = {'kind': 'message', 'version': v, 'text': text, 'find_groups': fg}
            compare(lambda: parser.parse_message(text, validation_level=1, find_groups=fg),
                    lambda: parser.parse_message(text, validation_level=2, find_groups=fg), rec, case,
                    ('msg', v, fg, text))


def run_dupnames(spec, rec):
    """structures that list one child name at two places (with possibly different cardinalities): instances holding the
    name once per place, and doubled, must get the same treatment from STRICT admission and from the validator"""
    from hl7apy import parser
    from . import c04
    v = spec['version']
    msgs = tables.messages(v)
    for name in sorted(msgs):
        node = msgs[name]
        if not structref.usable(v, node) or not structref.msh9_for(v, name):
            continue
        dups = c04.duplicate_names(node)
        if not dups:
            continue
        rec.count('duplicate_name_structures')
        for mode, double in (('required', False), ('all', False), ('all', True)):
            lines = structref.emit(node, None, mode, 1)
            out = []
            for l in lines:
                t = structref.conforming_msh(v, name) if l.seg == 'MSH' else \
                    structref.conforming_segment_line(v, l.seg, 'required')
                out.append(t)
                if double and l.seg in dups and l.seg != 'MSH':
                    out.append(t)
            text = '\r'.join(out)
            for fg in (True, False):
                case = {'kind': 'message', 'version': v, 'text': text, 'find_groups': fg}
                compare(lambda: parser.parse_message(text, validation_level=1, find_groups=fg),
                        lambda: parser.parse_message(text, validation_level=2, find_groups=fg), rec, case,
                        ('dup', v, name, mode, double, fg))


def run_histories(spec, rec):
    v = spec['version']
    rng = gen.rng_for(spec['seed'], 'c05-hist', v)
    for i in range(spec['n']):
        kind = ('segment', 'field', 'message')[i % 3]
        try:
            ws = hist.make_world(kind, v, 1, rng)
        except RuntimeError:
            continue
        wt = hist.make_world(kind, v, 2, gen.rng_for(0, 'x'), **c09.world_kwargs(ws.describe()))
        ops = []
        L = rng.randint(2, 10)
        ok = True
        for k in range(L):
            # half of the operations ignore the STRICT cardinality bound so that refusals are exercised too
            ws.level = 2 if rng.random() < 0.5 else 1
            op = ws.random_op(allow_copy_elem=True)
            ws.level = 1
            ops.append(op)
        case = {'kind': 'history', 'world': ws.describe(), 'ops': ops}

        def run(w):
            for op in ops:
                w.apply_real(op)
                w.apply_model(op)
            return w.els[sorted(w.els)[0]]
        compare(lambda: run(ws), lambda: run(wt), rec, case, ('hist', ws.describe(), ops))
        rec.seen('history_worlds', kind)


def run_refusals(spec, rec):
    """STRICT never lets a child exceed its maximum cardinality, a foreign or unknown child in, a datatype be overridden,
    or an invalid or over-long base-datatype value in"""
    from hl7apy import core
    from hl7apy.exceptions import HL7apyException
    rng = gen.rng_for(spec['seed'], 'c05-ref')
    for v in tables.versions():
        probes = []
        w = hist.make_world('segment', v, 1, rng)
        seg = w.seg
        single = [n for n in w.names if w.maxcard(n) == 1][0]
        rep = [n for n in w.names if w.maxcard(n) == -1][0]

        def card():
            s = core.Segment(seg, version=v, validation_level=1)
            s.add_field(single).value = 'a'
            s.add_field(single).value = 'b'
        probes.append(('cardinality-overflow', card))
        probes.append(('foreign-child', lambda: setattr(core.Segment(seg, version=v, validation_level=1),
                                                        'msh_3' if seg != 'MSH' else 'pid_3', 'x')))
        probes.append(('unknown-child', lambda: core.Segment(seg, version=v, validation_level=1).add(
            core.Field(version=v, validation_level=1))))
        probes.append(('unknown-field-beyond-table', lambda: setattr(core.Segment(seg, version=v, validation_level=1),
                                                                    '%s_%d' % (seg.lower(), 300), 'x')))
        probes.append(('datatype-override-ctor', lambda: core.Field(rep, datatype='ST' if w.rows[rep].datatype != 'ST'
                                                                    else 'NM', version=v, validation_level=1)))

        def dt_set():
            f = core.Field(rep, version=v, validation_level=1)
            f.datatype = 'ST' if w.rows[rep].datatype != 'ST' else 'NM'
        probes.append(('datatype-override-setter', dt_set))
        for dt, bad in (('NM', 'abc'), ('SI', 'x'), ('DT', '20201340'), ('TM', '2500'), ('DTM', 'bad'), ('ST', 'x' * 1000),
                        ('IS', 'x' * 21), ('NM', '1' * 17), ('SI', '12345'), ('TN', 'zz'), ('NM', '-1234567890123456'),
                        ('NM', '123456789012345.6'), ('NM', '-12345678901234.56')):
            if dt in tables.base_datatypes(v):
                probes.append(('invalid-or-overlong-value:%s' % dt,
                               lambda dt=dt, bad=bad: core.SubComponent(datatype=dt, value=bad, version=v,
                                                                        validation_level=1)))
        # one character more than the documented maximum length of every textual base datatype of the version, with the
        # level given explicitly (the process default stays TOLERANT): by sub-component and by the factory
        from hl7apy.factories import datatype_factory
        for dt, lim in (('ST', 999 if v == '2.6' else 199), ('IS', 20), ('GTS', 199), ('TN', 199), ('FT', 65536),
                        ('TX', 65536)):
            if dt in tables.base_datatypes(v):
                probes.append(('invalid-or-overlong-value:%s:one-over-the-maximum-length' % dt,
                               lambda dt=dt, lim=lim: core.SubComponent(datatype=dt, value='7' * (lim + 1), version=v,
                                                                        validation_level=1)))
                probes.append(('invalid-or-overlong-value:%s:one-over-the-maximum-length:factory' % dt,
                               lambda dt=dt, lim=lim: datatype_factory(dt, '7' * (lim + 1), v, 1)))
        # values spelled with digits outside ASCII are no HL7 numbers, sequence ids or dates
        for dt, bad in (('NM', u'\u0661\u0662\u0663'), ('NM', u'1\u0665'), ('NM', u'\uff11.\uff15'), ('SI', u'\u0967'),
                        ('DT', u'\uff12\uff10\uff12\uff10\uff10\uff11\uff10\uff11'), ('TM', u'\u0661\u0662'),
                        ('DTM', u'2020010\u0661')):
            if dt in tables.base_datatypes(v):
                probes.append(('invalid-or-overlong-value:%s:non-ascii-digits' % dt,
                               lambda dt=dt, bad=bad: core.SubComponent(datatype=dt, value=bad, version=v,
                                                                        validation_level=1)))
        # a component of any base datatype of the version holds one sub-component
        for dt in sorted(tables.base_datatypes(v)):
            def second(dt=dt):
                c = core.Component(datatype=dt, version=v, validation_level=1)
                c.add(core.SubComponent(datatype=dt, value=gen.witness(v, dt), version=v, validation_level=1))
                c.add(core.SubComponent(datatype=dt, value=gen.witness(v, dt), version=v, validation_level=1))
            probes.append(('cardinality-overflow:second-subcomponent-in-%s-component' % dt, second))
        named = {}
        for cdt in tables.complex_datatypes(v):
            for crow in tables.components(v, cdt):
                if crow.ok and crow.card[1] != 0 and tables.is_base(v, crow.datatype) and crow.datatype not in named:
                    named[crow.datatype] = crow.name
        for dt, cname in sorted(named.items()):
            def second_named(dt=dt, cname=cname):
                c = core.Component(cname, version=v, validation_level=1)
                c.add(core.SubComponent(datatype=dt, value=gen.witness(v, dt), version=v, validation_level=1))
                c.add(core.SubComponent(datatype=dt, value=gen.witness(v, dt), version=v, validation_level=1))
            probes.append(('cardinality-overflow:second-subcomponent-in-%s' % cname, second_named))
        # a handle on a component of a field that did not exist yet, used after the field has been created by other means:
        # the non-repeatable field is not created a second time
        for sname in ('PID', 'PV1', 'OBR', 'NK1', 'EVN'):
            rws = [r for r in gen.usable_rows(v, sname) if r.card[1] == 1 and r.kind == 'sequence'] \
                if tables.segments(v).get(sname) else []
            rws = [r for r in rws if tables.components(v, r.datatype) and tables.components(v, r.datatype)[0].ok and
                   tables.components(v, r.datatype)[0].kind == 'leaf' and tables.components(v, r.datatype)[0].card[1] != 0]
            if not rws:
                continue
            r0 = rws[0]
            c0 = tables.components(v, r0.datatype)[0]

            def stale(sname=sname, r0=r0, c0=c0):
                sg = core.Segment(sname, version=v, validation_level=1)
                handle = getattr(getattr(sg, r0.name.lower()), c0.name.lower())
                setattr(sg.add_field(r0.name), c0.name.lower(), gen.witness(v, c0.datatype))
                handle.value = gen.witness(v, c0.datatype)
            probes.append(('cardinality-overflow:stale-traversal-handle:%s' % r0.name, stale))
            break
        # a withdrawn field (maximum 0) cannot be populated through its proxy either
        done = 0
        for sname, rows_ in sorted(tables.segments(v).items()):
            for r in rows_ or []:
                if r.ok and r.card == (0, 0) and r.num and done < 3 and sname != 'MSH':
                    done += 1
                    probes.append(('cardinality-overflow:withdrawn-field-by-name:%s' % r.name,
                                   lambda sname=sname, r=r: setattr(core.Segment(sname, version=v, validation_level=1),
                                                                    r.name.lower(), 'X')))
                    probes.append(('cardinality-overflow:withdrawn-field-through-proxy:%s' % r.name,
                                   lambda sname=sname, r=r: setattr(getattr(core.Segment(sname, version=v,
                                                                                         validation_level=1),
                                                                            r.name.lower()), 'value', 'X')))
        for what, fn in probes:
            rec.evaluation(('refusal', v, what))
            case = {'kind': 'refusal', 'version': v, 'what': what}
            try:
                fn()
                rec.violation('strict-did-not-refuse:%s' % what.split(':')[0], case, {'what': what})
            except (HL7apyException, ValueError):
                rec.count('strict_refusals_observed')
            except Exception as e:
                rec.violation('strict-refusal-raised-%s' % type(e).__name__, case, {'exc': repr(e)[:150]})
    rec.sample({'kind': 'refusals', 'example': 'Segment(PID, STRICT): second PID_1 -> MaxChildLimitReached'})


def run_shard(spec, rec):
    {'segments': run_segments, 'messages': run_messages, 'histories': run_histories, 'dupnames': run_dupnames,
     'refusals': run_refusals}[spec['kind']](spec, rec)


def replay(case, rec):
    from hl7apy import parser
    v = case.get('version')
    if case['kind'] == 'segment':
        compare(lambda: parser.parse_segment(case['text'], version=v, validation_level=1),
                lambda: parser.parse_segment(case['text'], version=v, validation_level=2), rec, case, ('replay',))
    elif case['kind'] == 'message':
        fg = case['find_groups']
        compare(lambda: parser.parse_message(case['text'], validation_level=1, find_groups=fg),
                lambda: parser.parse_message(case['text'], validation_level=2, find_groups=fg), rec, case, ('replay',))
    elif case['kind'] == 'history':
        d = case['world']
        ws = hist.make_world(d['kind'], d['version'], 1, gen.rng_for(0, 'r'), **c09.world_kwargs(d))
        wt = hist.make_world(d['kind'], d['version'], 2, gen.rng_for(0, 'r'), **c09.world_kwargs(d))

        def run(w):
            for op in case['ops']:
                w.apply_real(op)
                w.apply_model(op)
            return w.els[sorted(w.els)[0]]
        compare(lambda: run(ws), lambda: run(wt), rec, case, ('replay',))
    else:
        run_refusals({'seed': 0}, rec)


def floors(tier, m):
    out = []
    c = m['counters']
    if c.get('strict_accepted', 0) < 1000:
        out.append('fewer than 1000 STRICT-accepted cases')
    if c.get('strict_rejected', 0) < 1000:
        out.append('fewer than 1000 STRICT-rejected cases')
    if c.get('reports_compared', 0) < 1000:
        out.append('fewer than 1000 reports compared')
    if c.get('strict_refusals_observed', 0) < 100:
        out.append('direct refusals barely exercised')
    if len(m['seen'].get('versions', ())) != len(tables.versions()):
        out.append('not every version')
    return out
