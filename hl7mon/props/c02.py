"""C02 - every defined position is encoded at, and parsed from, its own index.

Exhaustive sweep of every (version, segment, field row), every (version, complex datatype,
component row) and every sub-component row; plus Z-segments and varies-terminated segments for
indices 1..N.  The oracle is the reference tokenizer (er7ref) applied to to_er7() and the field
number taken from the row *name* by tables.py.
"""
import collections

from .. import tables, er7ref, gen

ID = 'C02'
LEVEL = 'exploration'
EXHAUSTIVE = True
RULE = ('exhaustive enumeration of table rows: (version, segment, field row, level), (version, complex datatype, '
        'component row), (version, datatype, component, sub-component row), plus open-ended segments x indices; '
        'a case is non-trivial when the tokenizer decided where the assigned value landed (or the parent could '
        'not be instantiated/encoded/parsed); distinct = distinct (version, parent, position path, level, direction)')
ASSUMPTIONS = [
    'er7ref tokenizer and tables.py row reader are correct (independent of hl7apy.core/parser)',
    'witness literals (gen.WIT) are valid for their base datatype in every version',
    'MSH-1/MSH-2 positions are judged by C07 (they spell the delimiters); here MSH starts at field 3',
]
SHARD_TIMEOUT = {'quick': 900, 'thorough': 3600}


def plan(tier, seed):
    specs = []
    for v in tables.versions():
        specs.append({'kind': 'fields', 'version': v})
        specs.append({'kind': 'components', 'version': v})
    n = 64 if tier == 'quick' else 1000
    specs.append({'kind': 'open', 'n': n})
    for v in tables.versions():
        specs.append({'kind': 'site', 'version': v, 'n': 40 if tier == 'quick' else 1500})
    if tier == 'thorough':
        for v in tables.versions():
            specs.append({'kind': 'sets', 'version': v, 'n': 3000})
    return specs


def _mk_segment(core, seg, version, level):
    s = core.Segment(seg, version=version, validation_level=level)
    if seg == 'MSH':
        s.msh_1 = '|'
        s.msh_2 = '^~\\&'
    return s


def _expect_text(seg, num, val):
    if seg == 'MSH':
        return 'MSH|^~\\&' + '|' * (num - 2) + val
    return seg + '|' * num + val


def classify_field_failure(version, row, found_at):
    """mechanism classification of a wrong-position witness"""
    if not row.ok:
        return 'malformed-table-row'
    gaps = tables.gap_numbers(version, row.segment)
    if gaps and found_at == tables.list_position(version, row.segment, row.name) and found_at != row.num:
        return 'field-encoded-at-list-position-in-gap-numbered-segment'
    return 'wrong-position'


def check_field_row(core, parser, version, row, level, rec):
    seg = row.segment
    ec = er7ref.STD
    rowkey = '%s|%s|%s' % (version, seg, row.name)
    case = {'kind': 'field', 'version': version, 'segment': seg, 'row': row.name, 'level': level}
    text, (cj, ck), val = field_witness(version, row)
    rec.evaluation(('f', version, seg, row.name, level))
    if not row.ok and 'does not reference' in row.why:
        rec.violation('table-row-references-another-entry', case, {'why': row.why}, row=rowkey)
        return
    try:
        s = _mk_segment(core, seg, version, level)
    except Exception as e:
        rec.violation('segment-uninstantiable', case, {'exc': repr(e)[:200]}, row='%s|%s' % (version, seg))
        return
    try:
        setattr(s, row.name.lower(), text)
        er = s.to_er7()
    except Exception as e:
        cause = 'malformed-table-row' if not row.ok else 'populate-or-encode-raised:%s' % type(e).__name__
        rec.violation(cause, case, {'exc': repr(e)[:200]}, row=rowkey)
        return
    name, fields = er7ref.tokenize_segment(er, ec)
    lv = er7ref.leaves(fields[2:] if seg == 'MSH' else fields)
    off = 2 if seg == 'MSH' else 0
    want = [((row.num - off, 1, cj, ck), val)] if row.num else None
    rec.count('field_positions_tokenized')
    if lv != want:
        found = [p[0] + off for p, x in lv if x == val]
        cause = classify_field_failure(version, row, found[0] if found else None)
        rec.violation(cause, case, {'encoded': er[:200], 'expected': _expect_text(seg, row.num or 0, text)[:200]},
                      row=rowkey)
        return
    # hostile history: the populated position is re-assigned by name with an element the segment must refuse (another
    # version); the caller catches the refusal and the value is still encoded at its index
    other = '2.4' if version != '2.4' else '2.5'
    try:
        intruder = core.Field(row.name, version=other)
    except Exception:
        intruder = None
        rec.count('refused_reassignment_not_buildable')
    if intruder is not None:
        try:
            setattr(s, row.name.lower(), intruder)
            rec.count('reassignment_not_refused')
        except Exception:
            rec.count('refused_reassignments')
            try:
                er_after = s.to_er7()
            except Exception as e:
                er_after = 'EXC:%r' % e
            if er_after != er:
                rec.violation('refused-reassignment-moved-or-lost-the-value', case, {'before': er[:200],
                                                                                    'after': er_after[:200]}, row=rowkey)
                return
    # parse direction
    try:
        s2 = parser.parse_segment(er, version=version, validation_level=level)
        lst = s2.children.indexes.get(row.name, [])
        got = [c.to_er7() for c in lst]
        er2 = s2.to_er7()
    except Exception as e:
        cause = 'malformed-table-row' if not row.ok else 'parse-raised:%s' % type(e).__name__
        rec.violation(cause, case, {'text': er[:200], 'exc': repr(e)[:200]}, row=rowkey)
        return
    rec.count('field_positions_parsed')
    if got != [text] or er2 != er:
        cause = 'malformed-table-row' if not row.ok else 'parse-mismatch'
        rec.violation(cause, case, {'text': er[:200], 'under_name': got, 'reencoded': er2[:200]}, row=rowkey)


def field_witness(version, row):
    """(text to assign, (component no, sub-component no) where its leaf must land, leaf value): the first
    component / sub-component that is not withdrawn (max cardinality 0) carries the value"""
    if row.kind != 'sequence' or not row.ok:
        val = gen.witness(version, row.datatype if row.kind == 'leaf' else 'ST')
        return val, (1, 1), val
    for c in tables.components(version, row.datatype):
        if c.card[1] == 0 or not c.ok:
            continue
        if c.kind == 'leaf' or tables.is_base(version, c.datatype):
            val = gen.witness(version, c.datatype)
            return '^' * (c.num - 1) + val, (c.num, 1), val
        for sc in tables.components(version, c.datatype):
            if sc.card[1] == 0 or not sc.ok or sc.kind != 'leaf':
                continue
            val = gen.witness(version, sc.datatype)
            return '^' * (c.num - 1) + '&' * (sc.num - 1) + val, (c.num, sc.num), val
    return 'x', (1, 1), 'x'


def _first_leaf_dt(version, dt, depth=0):
    comps = tables.components(version, dt)
    if not comps or depth > 3:
        return 'ST'
    c = comps[0]
    if c.kind == 'leaf' or tables.is_base(version, c.datatype):
        return c.datatype
    return _first_leaf_dt(version, c.datatype, depth + 1)


def run_fields(spec, rec):
    from hl7apy import core, parser
    v = spec['version']
    segs = tables.segments(v)
    nrows = 0
    for seg in sorted(segs):
        rows = segs[seg]
        if rows is None:
            rec.evaluation(('f', v, seg, None))
            case = {'kind': 'segment', 'version': v, 'segment': seg}
            try:
                core.Segment(seg, version=v)
                parser.parse_segment(seg + '|x', version=v).to_er7()
            except Exception as e:
                rec.violation('segment-uninstantiable', case, {'exc': repr(e)[:200]}, row='%s|%s' % (v, seg))
            continue
        for row in rows:
            if seg == 'MSH' and row.num in (1, 2):
                continue
            nrows += 1
            levels = [2]
            if row.card and row.card[1] != 0:
                levels.append(1)
            for level in levels:
                check_field_row(core, parser, v, row, level, rec)
        # one field beyond the table (TOLERANT keeps it, datatype unknown) whose components have gaps: each value is parsed
        # from, and encoded at, its own component position
        if rows[-1].ok and rows[-1].datatype != 'varies' and seg != 'MSH':
            text = seg + '|' * (rows[-1].num + 1) + 'A^^C^^^F'
            case = {'kind': 'beyond-table', 'version': v, 'segment': seg, 'text': text}
            rec.evaluation(('beyond', v, seg))
            try:
                out = parser.parse_segment(text, version=v, validation_level=2).to_er7()
                rec.count('beyond_table_component_gap_checks')
                if out != text:
                    rec.violation('component-of-unknown-field-wrong-position', case, {'reencoded': out[-30:]},
                                  row='%s|%s' % (v, seg))
            except Exception as e:
                rec.violation('beyond-table-raised:%s' % type(e).__name__, case, {'exc': repr(e)[:200]},
                              row='%s|%s' % (v, seg))
    rec.count('field_rows_enumerated', nrows)
    rec.count('field_rows_in_tables', sum(len(r) for r in segs.values() if r) - 2)
    rec.seen('versions', v)
    rec.sample({'kind': 'field', 'version': v, 'example': 'Segment(PID).pid_5 = x -> tokenized position 5'})


def _host_fields(version):
    """datatype -> a field row name having that datatype (for the parse direction)"""
    out = {}
    for seg, rows in sorted(tables.segments(version).items()):
        for r in rows or []:
            if r.ok and r.kind == 'sequence' and r.card[1] != 0 and r.datatype not in out:
                out[r.datatype] = r.name
    return out


def check_component_row(core, parser, version, dt, crow, host, rec):
    ec = er7ref.STD
    rowkey = '%s|%s|%s' % (version, dt, crow.name)
    case = {'kind': 'component', 'version': version, 'datatype': dt, 'row': crow.name, 'host': host}
    rec.evaluation(('c', version, dt, crow.name))
    if not crow.ok and 'does not reference' in crow.why:
        rec.violation('table-row-references-another-entry', case, {'why': crow.why}, row=rowkey)
        return
    val = gen.witness(version, crow.datatype if crow.kind == 'leaf' else _first_leaf_dt(version, crow.datatype))
    try:
        f = core.Field(host, version=version) if host else core.Field('ZZZ_1', datatype=dt, version=version)
        setattr(f, crow.name.lower(), val)
        er = f.to_er7()
    except Exception as e:
        cause = 'malformed-table-row' if not crow.ok else 'populate-or-encode-raised:%s' % type(e).__name__
        rec.violation(cause, case, {'exc': repr(e)[:200]}, row=rowkey)
        return
    fld = er7ref.split_field(er, ec)
    lv = er7ref.leaves([fld])
    rec.count('component_positions_tokenized')
    if lv != [((1, 1, crow.num, 1), val)]:
        rec.violation('malformed-table-row' if not crow.ok else 'wrong-position', case,
                      {'encoded': er[:200], 'expected_component': crow.num}, row=rowkey)
        return
    # the same position in a field that is a leaf by the tables and is given this datatype (a TOLERANT override), through
    # the constructor and through the setter
    for how in ('ctor', 'setter'):
        try:
            if how == 'ctor':
                f3 = core.Field('PID_1', datatype=dt, version=version)
            else:
                f3 = core.Field('PID_1', version=version)
                f3.datatype = dt
            setattr(f3, crow.name.lower(), val)
            er3 = f3.to_er7()
        except Exception as e:
            if crow.ok:
                rec.violation('populate-or-encode-raised:%s' % type(e).__name__, dict(case, host='PID_1 overridden (%s)' % how),
                              {'exc': repr(e)[:200]}, row=rowkey)
            return
        rec.count('component_positions_tokenized_in_overridden_leaf_fields')
        if er7ref.leaves([er7ref.split_field(er3, ec)]) != [((1, 1, crow.num, 1), val)] and crow.ok:
            rec.violation('wrong-position', dict(case, host='PID_1 overridden (%s)' % how),
                          {'encoded': er3[:200], 'expected_component': crow.num}, row=rowkey)
            return
    if host:
        try:
            f2 = parser.parse_field(er, name=host, version=version)
            got = [c.to_er7() for c in f2.children.indexes.get(crow.name, [])]
            er2 = f2.to_er7()
        except Exception as e:
            rec.violation('parse-raised:%s' % type(e).__name__, case, {'text': er, 'exc': repr(e)[:200]}, row=rowkey)
            return
        rec.count('component_positions_parsed')
        if got != [val] or er2 != er:
            rec.violation('malformed-table-row' if not crow.ok else 'parse-mismatch', case,
                          {'text': er, 'under_name': got, 'reencoded': er2}, row=rowkey)
    else:
        rec.count('component_rows_without_host_field')
    # sub-components
    if crow.kind == 'sequence' and not tables.is_base(version, crow.datatype):
        srows = list(tables.components(version, crow.datatype))
        # hostile history: another, still empty, object of this component name had its datatype overridden (TOLERANT
        # permits it); the positions the version defines for the name are those of every other object all the same
        others = [d for d in tables.complex_datatypes(version) if d != crow.datatype]
        if others and crow.ok:
            try:
                scratch = core.Component(crow.name, version=version)
                scratch.datatype = others[(crow.num * 7) % len(others)]
                rec.count('datatype_overrides_on_scratch_components')
            except Exception:
                rec.count('datatype_overrides_refused')
        for srow in srows:
            check_subcomponent_row(core, parser, version, dt, crow, srow, host, rec)


def check_subcomponent_row(core, parser, version, dt, crow, srow, host, rec):
    ec = er7ref.STD
    rowkey = '%s|%s|%s|%s' % (version, dt, crow.name, srow.name)
    case = {'kind': 'subcomponent', 'version': version, 'datatype': dt, 'component': crow.name,
            'row': srow.name, 'host': host}
    rec.evaluation(('s', version, dt, crow.name, srow.name))
    val = gen.witness(version, srow.datatype if srow.kind == 'leaf' else 'ST')
    try:
        f = core.Field(host, version=version) if host else core.Field('ZZZ_1', datatype=dt, version=version)
        comp = getattr(f, crow.name.lower())
        setattr(comp, srow.name.lower(), val)
        er = f.to_er7()
    except Exception as e:
        cause = 'malformed-table-row' if not (crow.ok and srow.ok) else \
            'populate-or-encode-raised:%s' % type(e).__name__
        rec.violation(cause, case, {'exc': repr(e)[:200]}, row=rowkey)
        return
    lv = er7ref.leaves([er7ref.split_field(er, ec)])
    rec.count('subcomponent_positions_tokenized')
    if lv != [((1, 1, crow.num, srow.num), val)]:
        rec.violation('malformed-table-row' if not (crow.ok and srow.ok) else 'wrong-position', case,
                      {'encoded': er[:200], 'expected': [crow.num, srow.num]}, row=rowkey)
        return
    if host:
        try:
            f2 = parser.parse_field(er, name=host, version=version)
            comps = f2.children.indexes.get(crow.name, [])
            got = [s.to_er7() for c in comps for s in c.children.indexes.get(srow.name, [])]
            er2 = f2.to_er7()
        except Exception as e:
            rec.violation('parse-raised:%s' % type(e).__name__, case, {'text': er, 'exc': repr(e)[:200]}, row=rowkey)
            return
        rec.count('subcomponent_positions_parsed')
        if got != [val] or er2 != er:
            rec.violation('malformed-table-row' if not (crow.ok and srow.ok) else 'parse-mismatch', case,
                          {'text': er, 'under_name': got, 'reencoded': er2}, row=rowkey)


def run_components(spec, rec):
    from hl7apy import core, parser
    v = spec['version']
    hosts = _host_fields(v)
    n = 0
    for dt in tables.complex_datatypes(v):
        for crow in tables.components(v, dt):
            n += 1
            check_component_row(core, parser, v, dt, crow, hosts.get(dt), rec)
    rec.count('component_rows_enumerated', n)
    rec.count('component_rows_in_tables', sum(len(tables.components(v, d)) for d in tables.complex_datatypes(v)))
    rec.seen('versions', v)
    rec.sample({'kind': 'component', 'version': v, 'example': 'Field(<host of XPN>).xpn_2 = x -> ^x'})


def open_ended_segments(version):
    out = ['ZZ1', 'ZAB']
    for seg, rows in sorted(tables.segments(version).items()):
        if rows and rows[-1].ok and rows[-1].datatype == 'varies':
            out.append(seg)
    return out


def check_open(core, parser, version, seg, idxs, level, rec):
    """populate the given field indices together (values distinct), expect each at its index"""
    case = {'kind': 'open', 'version': version, 'segment': seg, 'indices': idxs, 'level': level}
    rec.evaluation(('o', version, seg, tuple(idxs), level))
    vals = {i: 'v%d' % i for i in idxs}
    try:
        s = core.Segment(seg, version=version, validation_level=level)
        for k, i in enumerate(idxs):
            # (a field number may be written with leading zeros: zzz_07 is the seventh field, or it is refused)
            spelled = '%s_%d' % (seg.lower(), i) if (k + len(idxs)) % 3 else '%s_%02d' % (seg.lower(), i)
            try:
                setattr(s, spelled, vals[i])
            except Exception:
                if spelled.endswith('_%d' % i):
                    raise
                rec.count('open_ended_zero_padded_names_refused')
                setattr(s, '%s_%d' % (seg.lower(), i), vals[i])
            else:
                if not spelled.endswith('_%d' % i):
                    rec.count('open_ended_zero_padded_names_accepted')
        er = s.to_er7()
        name, fields = er7ref.tokenize_segment(er, er7ref.STD)
        lv = er7ref.leaves(fields)
        want = [((i, 1, 1, 1), vals[i]) for i in sorted(idxs)]
        if lv != want:
            rec.violation('open-ended-wrong-position', case, {'encoded': er[:300]}, row='%s|%s' % (version, seg))
            return
        s2 = parser.parse_segment(er, version=version, validation_level=level)
        got = {i: [c.to_er7() for c in s2.children.indexes.get('%s_%d' % (seg, i), [])] for i in idxs}
        if any(got[i] != [vals[i]] for i in idxs) or s2.to_er7() != er:
            rec.violation('open-ended-parse-mismatch', case, {'text': er[:300], 'got': str(got)[:200],
                                                             'reencoded': s2.to_er7()[:300]},
                          row='%s|%s' % (version, seg))
            return
        # the same text assigned to a fresh segment: same names, same encoding
        s3 = core.Segment(seg, version=version, validation_level=level)
        s3.value = er
        got3 = {i: [c.to_er7() for c in s3.children.indexes.get('%s_%d' % (seg, i), [])] for i in idxs}
        if any(got3[i] != [vals[i]] for i in idxs) or s3.to_er7() != er:
            rec.violation('open-ended-assigned-text-mismatch', case, {'text': er[:300], 'got': str(got3)[:200],
                                                                      'reencoded': s3.to_er7()[:300]},
                          row='%s|%s' % (version, seg))
            return
        # components with gaps (p^^r) in fields beyond the table: every value at its own component position
        gap = seg + '|' * idxs[-1] + 'p^^r^^^u'
        s4 = parser.parse_segment(gap, version=version, validation_level=level)
        lv4 = er7ref.leaves(er7ref.tokenize_segment(s4.to_er7(), er7ref.STD)[1])
        if s4.to_er7() != gap or [p[2] for p, _ in lv4] != [1, 3, 6]:
            rec.violation('open-ended-component-gaps-mismatch', case, {'text': gap[-40:], 'reencoded': s4.to_er7()[-60:]},
                          row='%s|%s' % (version, seg))
            return
        rec.count('open_ended_positions_checked', len(idxs))
    except Exception as e:
        rec.violation('open-ended-raised:%s' % type(e).__name__, case, {'exc': repr(e)[:200]},
                      row='%s|%s' % (version, seg))


def check_varies(core, parser, version, row, comps, level, rec):
    """components of a `varies` field are addressed by number (VARIES_n): each is encoded at, and parsed from, its own
    component position, whichever of the others are present"""
    seg = row.segment
    case = {'kind': 'varies', 'version': version, 'segment': seg, 'row': row.name, 'components': comps, 'level': level}
    rowkey = '%s|%s|%s' % (version, seg, row.name)
    rec.evaluation(('v', version, seg, row.name, tuple(comps), level))
    try:
        s = core.Segment(seg, version=version, validation_level=level)
        for n in comps:
            setattr(getattr(s, row.name.lower()), 'varies_%d' % n, 'w%d' % n)
        er = s.to_er7()
        name, fields = er7ref.tokenize_segment(er, er7ref.STD)
        lv = er7ref.leaves(fields)
        want = [((row.num, 1, n, 1), 'w%d' % n) for n in sorted(comps)]
        rec.count('varies_component_positions_checked', len(comps))
        if lv != want:
            rec.violation('varies-component-wrong-position', case, {'encoded': er[:200]}, row=rowkey)
            return
        s2 = parser.parse_segment(er, version=version, validation_level=level)
        if s2.to_er7() != er:
            rec.violation('varies-component-parse-mismatch', case, {'text': er[:200], 'reencoded': s2.to_er7()[:200]},
                          row=rowkey)
    except Exception as e:
        rec.violation('varies-component-raised:%s' % type(e).__name__, case, {'exc': repr(e)[:200]}, row=rowkey)


def run_open(spec, rec):
    from hl7apy import core, parser
    rng = gen.rng_for(spec['seed'], 'c02-open')
    N = spec['n']
    for v in tables.versions():
        for seg in open_ended_segments(v):
            rows = tables.segments(v).get(seg)
            first_free = 1 if not rows else rows[-1].num
            # indices at and beyond the last defined field are free-form; defined ones are covered by the row sweep
            for i in range(first_free, first_free + N):
                check_open(core, parser, v, seg, [i], 2, rec)
            for _ in range(20 if spec['tier'] == 'quick' else 200):
                k = rng.randint(2, 6)
                idxs = sorted(rng.sample(range(first_free, first_free + max(N, 200)), k))
                check_open(core, parser, v, seg, idxs, 2, rec)
            rec.seen('open_ended_segments', '%s %s' % (v, seg))
        for seg, rows in sorted(tables.segments(v).items()):
            for row in rows or []:
                if row.ok and row.datatype == 'varies' and row.card[1] != 0 and row.num:
                    for comps in ([1], [2], [3], [1, 3], [2, 5], [1, 2, 3], [4, 9], [9, 12], [2, 10, 11], [1, 10], [14]):
                        check_varies(core, parser, v, row, comps, 2, rec)
    rec.sample({'kind': 'open', 'example': 'Segment(ZZ1).zz1_37 = v37 -> 37 separators'})


def run_sets(spec, rec):
    """thorough: random sets of 2-6 defined positions of one segment populated together"""
    from hl7apy import core, parser
    v = spec['version']
    rng = gen.rng_for(spec['seed'], 'c02-sets', v)
    segs = {s: [r for r in rows if r.ok and r.card[1] != 0 and not (s == 'MSH' and r.num in (1, 2))]
            for s, rows in tables.segments(v).items() if rows}
    names = sorted(s for s in segs if len(segs[s]) >= 2)
    for _ in range(spec['n']):
        seg = rng.choice(names)
        rows = rng.sample(segs[seg], min(len(segs[seg]), rng.randint(2, 6)))
        case = {'kind': 'sets', 'version': v, 'segment': seg, 'rows': [r.name for r in rows]}
        rec.evaluation(('S', v, seg, tuple(sorted(r.name for r in rows))))
        try:
            s = _mk_segment(core, seg, v, 2)
            vals = {}
            for r in rows:
                vals[r.num] = gen.witness(v, r.datatype if r.kind == 'leaf' else _first_leaf_dt(v, r.datatype))
                setattr(s, r.name.lower(), vals[r.num])
            er = s.to_er7()
            name, fields = er7ref.tokenize_segment(er, er7ref.STD)
            off = 2 if seg == 'MSH' else 0
            lv = er7ref.leaves(fields[2:] if seg == 'MSH' else fields)
            want = [((n - off, 1, 1, 1), vals[n]) for n in sorted(vals)]
            if lv != want:
                gaps = tables.gap_numbers(v, seg)
                cause = 'field-encoded-at-list-position-in-gap-numbered-segment' if gaps else 'wrong-position'
                rec.violation(cause, case, {'encoded': er[:300]}, row='%s|%s|set' % (v, seg))
                continue
            s2 = parser.parse_segment(er, version=v)
            if s2.to_er7() != er:
                rec.violation('parse-mismatch', case, {'text': er[:300], 'reencoded': s2.to_er7()[:300]},
                              row='%s|%s|set' % (v, seg))
        except Exception as e:
            rec.violation('sets-raised:%s' % type(e).__name__, case, {'exc': repr(e)[:200]},
                          row='%s|%s|set' % (v, seg))


def run_site(spec, rec):
    """a site configured with its own default delimiters and then its default version (the two settings are independent):
    values assigned by name to repeated and single fields sit at their positions in the site's own encoding and in an encoding
    with another set given to to_er7(), and parsing either text with the set it was written in yields them under their names"""
    import hl7apy
    from hl7apy import core, parser
    v = spec['version']
    rng = gen.rng_for(spec['seed'], 'c02-site', v)
    base = (hl7apy.get_default_version(), dict(hl7apy.get_default_encoding_chars()))
    segs = {s: [r for r in gen.usable_rows(v, s)] for s, rows in tables.segments(v).items() if rows and s != 'MSH'}
    names = sorted(s for s in segs if [r for r in segs[s] if r.card[1] == -1] and len(segs[s]) >= 2)
    try:
        for it in range(spec['n']):
            site = gen.delimiter_set(rng, v, with_truncation=False)
            other = gen.delimiter_set(rng, v, with_truncation=False)
            if other['REPETITION'] == site['REPETITION'] or other['FIELD'] == site['FIELD']:
                continue
            hl7apy.set_default_encoding_chars(dict(site))
            hl7apy.set_default_version(v)
            if er7ref.vkey(v) >= (2, 7):
                # from v2.7 the library keeps a second default set (with the truncation character) that the setter does not
                # replace: parentless elements of those versions use that one - the set in force is read, not prescribed
                site = {k: x for k, x in hl7apy.get_default_encoding_chars(v).items() if k != 'TRUNCATION'}
                if other['REPETITION'] == site['REPETITION'] or other['FIELD'] == site['FIELD']:
                    continue
            seg = rng.choice(names)
            rep = rng.choice([r for r in segs[seg] if r.card[1] == -1])
            single = rng.choice([r for r in segs[seg] if r.name != rep.name])
            case = {'kind': 'site', 'version': v, 'segment': seg, 'repeated': rep.name, 'single': single.name,
                    'site_set': site, 'other_set': other}
            rec.evaluation(('site', v, seg, rep.name, single.name, it))
            try:
                s = core.Segment(seg, validation_level=2)          # version and delimiters: the site's defaults
                marks = set(site.values()) | set(other.values())
                wit = lambda r, k: ''.join(ch for ch in '%s%d' % (gen.witness(v, r.datatype if r.kind == 'leaf' else
                                                                             _first_leaf_dt(v, r.datatype)), k)
                                           if ch not in marks) or 'x'
                textual = lambda r: (r.datatype if r.kind == 'leaf' else _first_leaf_dt(v, r.datatype)) in \
                    ('ST', 'TX', 'FT', 'ID', 'IS')
                vals = [wit(rep, 1) if textual(rep) else gen.witness(v, _first_leaf_dt(v, rep.datatype) if rep.kind != 'leaf'
                                                                      else rep.datatype),
                        wit(rep, 2) if textual(rep) else gen.witness(v, _first_leaf_dt(v, rep.datatype) if rep.kind != 'leaf'
                                                                      else rep.datatype),
                        wit(single, 3) if textual(single) else gen.witness(v, _first_leaf_dt(v, single.datatype)
                                                                           if single.kind != 'leaf' else single.datatype)]
                if any(set(x) & marks for x in vals):
                    rec.count('site_cases_skipped_value_holds_a_delimiter')
                    continue
                setattr(s, rep.name.lower(), vals[0])
                s.add_field(rep.name).value = vals[1]
                setattr(s, single.name.lower(), vals[2])
                want = sorted([((rep.num, 1, 1, 1), vals[0]), ((rep.num, 2, 1, 1), vals[1]), ((single.num, 1, 1, 1), vals[2])])
                for which, ec in (('site', site), ('given', other)):
                    er = s.to_er7() if which == 'site' else s.to_er7(gen.full_ec(other))
                    lv = sorted(er7ref.leaves(er7ref.tokenize_segment(er, ec)[1]))
                    rec.count('site_positions_tokenized', len(want))
                    if lv != want:
                        rec.violation('wrong-position-under-%s-delimiters' % which, case, {'encoded': er[:200], 'leaves': str(lv)[:200]})
                        break
                    s2 = parser.parse_segment(er) if which == 'site' else \
                        parser.parse_segment(er, version=v, encoding_chars=gen.full_ec(other))
                    got = sorted([(n, [c.to_er7(ec if which == 'given' else None) for c in s2.children.indexes.get(n, [])])
                                  for n in (rep.name, single.name)])
                    if got != sorted([(rep.name, vals[:2]), (single.name, vals[2:])]):
                        rec.violation('value-not-found-under-its-name-after-parse:%s-delimiters' % which, case,
                                      {'text': er[:200], 'found': str(got)[:200]})
                        break
                else:
                    rec.count('site_cases')
            except Exception as e:
                rec.violation('site-raised:%s' % type(e).__name__, case, {'exc': repr(e)[:200]})
    finally:
        hl7apy.set_default_version(base[0])
        hl7apy.set_default_encoding_chars(base[1])
    rec.seen('versions_site', v)


def run_shard(spec, rec):
    {'fields': run_fields, 'components': run_components, 'open': run_open, 'sets': run_sets,
     'site': run_site}[spec['kind']](spec, rec)


def replay(case, rec):
    from hl7apy import core, parser
    v = case['version']
    k = case['kind']
    if k == 'field':
        row = [r for r in tables.segments(v)[case['segment']] if r.name == case['row']][0]
        check_field_row(core, parser, v, row, case['level'], rec)
    elif k in ('segment', 'beyond-table'):
        run_fields({'version': v}, rec)
    elif k == 'varies':
        row = [r for r in tables.segments(v)[case['segment']] if r.name == case['row']][0]
        check_varies(core, parser, v, row, case['components'], case['level'], rec)
    elif k in ('component', 'subcomponent'):
        dt = case['datatype']
        cname = case['row'] if k == 'component' else case['component']
        crow = [c for c in tables.components(v, dt) if c.name == cname][0]
        check_component_row(core, parser, v, dt, crow, case.get('host'), rec)
    elif k == 'open':
        check_open(core, parser, v, case['segment'], case['indices'], case['level'], rec)
    elif k == 'site':
        for sd in range(3):
            run_site({'version': v, 'n': 60, 'seed': sd}, rec)
    elif k == 'sets':
        rec.inconclusive_reason('sets cases replay through the thorough tier with the same seed')


def floors(tier, m):
    out = []
    c = m['counters']
    if c.get('field_rows_enumerated', 0) != c.get('field_rows_in_tables', -1):
        out.append('field rows enumerated %s != rows in tables %s' % (c.get('field_rows_enumerated'),
                                                                      c.get('field_rows_in_tables')))
    if c.get('component_rows_enumerated', 0) != c.get('component_rows_in_tables', -1):
        out.append('component rows enumerated != rows in tables')
    if len(m['seen'].get('versions', ())) != len(tables.versions()):
        out.append('not every version was swept')
    if c.get('field_positions_tokenized', 0) < 20000 or c.get('component_positions_tokenized', 0) < 4000:
        out.append('tokenizer decided too few positions: %s' % c)
    if c.get('refused_reassignments', 0) < 10000 or c.get('datatype_overrides_on_scratch_components', 0) < 300:
        out.append('hostile histories (refused re-assignment, datatype override on another object) too rare: %s' % c)
    if c.get('site_cases', 0) < 200 or len(m['seen'].get('versions_site', ())) != len(tables.versions()):
        out.append('site-default delimiters: %s cases' % c.get('site_cases'))
    if c.get('open_ended_positions_checked', 0) < 1000:
        out.append('open-ended segments: too few positions checked')
    return out
