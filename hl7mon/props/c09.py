"""C09 - child mutations behave like edits of an ordered list.

Monitor: reference model (hist.py) executed in lock-step with the real element; after every operation the element's
to_er7() is compared with the model's encoding.
"""
import itertools

from .. import tables, gen, hist, er7ref
from . import c02

ID = 'C09'
LEVEL = 'exploration'
RULE = ('operation histories over {set by name / long name / position, set by index, add, add_<child>, delete by name, delete by '
        'index, remove, copy from another element (proxy and element)} on segments, fields and messages (with a repeatable '
        'group) of every version, TOLERANT and STRICT: exhaustive up to length 3 over a reduced alphabet, random up to length 30; '
        'non-trivial = at least 2 operations and some name held >= 2 repetitions at some point; distinct = (world, operation '
        'history with argument classes)')
ASSUMPTIONS = [
    'the reference model is the ordered-list semantics spelled out in the property statement; STRICT groups encode in '
    'structure order (documented library behaviour), TOLERANT ones in insertion order',
    'operations are generated state-aware so that each is expected to succeed; an exception on such an operation is reported',
]


def plan(tier, seed):
    specs = []
    n = 260 if tier == 'quick' else 4000
    for v in tables.versions():
        for kind in ('segment', 'field', 'message', 'component'):
            specs.append({'kind': 'random', 'world': kind, 'version': v, 'n': n if kind in ('segment', 'field') else n // 2})
    for v in tables.versions():
        specs.append({'kind': 'groupcopy', 'version': v, 'n': 24 if tier == 'quick' else 400})
    specs.append({'kind': 'exhaustive', 'world': 'segment', 'version': '2.5', 'L': 3 if tier == 'quick' else 4})
    specs.append({'kind': 'exhaustive', 'world': 'message', 'version': '2.5', 'L': 3})
    specs.append({'kind': 'exhaustive', 'world': 'field', 'version': '2.5', 'L': 3 if tier == 'quick' else 4})
    return specs


def classify(world, op, got, want):
    """mechanism of a divergence, computed from the witness"""
    k = op[0]
    if k == 'copy_elem':
        return 'element-from-another-parent-not-copied-by-value'
    if k == 'setidx_own':
        return 'own-repetition-not-copied-by-value'
    if k.startswith('f_'):
        return 'refused-operation-changed-the-encoding:%s' % k
    if sorted(got.replace('\r', '|').replace('~', '|').split('|')) == \
            sorted(want.replace('\r', '|').replace('~', '|').split('|')):
        if k in ('set', 'setidx', 'copy'):
            return 'replace-changed-order'
        return 'order-differs-after-%s' % k
    return 'content-differs-after-%s' % k


def run_history(world, ops, rec, gen_next=None, monitors=()):
    """execute ops (or draw them with gen_next) in lock-step; -> (history, maxreps)"""
    done = []
    maxreps = 0
    i = 0
    while True:
        if gen_next is not None:
            op = gen_next(i)
            if op is None:
                break
        else:
            if i >= len(ops):
                break
            op = ops[i]
        i += 1
        case = {'world': world.describe_full() if hasattr(world, 'describe_full') else world.describe(),
                'ops': done + [op]}
        if op[0].startswith('f_'):
            # a call that must be refused: the model does not move, the encodings must not either
            try:
                hist.apply_wild(world, op)
            except hist.Skip:
                continue
            except Exception:
                rec.count('refused_operations_inside_histories')
                done.append(op)
            else:
                return done, maxreps      # the call was accepted (state-dependent): the model no longer applies
        else:
            try:
                world.apply_real(op)
            except Exception as e:
                rec.violation('valid-operation-raised:%s:%s' % (op[0], type(e).__name__), case,
                              {'exc': repr(e)[:200]})
                return done, maxreps
            world.apply_model(op)
            done.append(op)
        for el in world.els:
            m = world.model[el]
            if isinstance(m, dict):
                maxreps = max([maxreps] + [len(x) for x in m.values()])
            else:
                names = [n for n, _ in m]
                maxreps = max([maxreps] + [names.count(n) for n in set(names)])
        rec.count('encoding_comparisons')
        for el in world.els:
            got, want = world.encode_real(el), world.encode_model(el)
            if got != want:
                rec.violation(classify(world, op, got, want), case, {'element': el, 'real': got[:300],
                                                                    'model': want[:300]})
                return done, maxreps
        for mon in monitors:
            if mon(world, op, case) is False:
                return done, maxreps
    return done, maxreps


def describe_full(world):
    d = world.describe()
    return d


def world_kwargs(desc):
    kw = {}
    if 'segment' in desc:
        kw['seg'] = desc['segment']
    if 'field' in desc:
        kw['fname'] = desc['field']
    if 'component' in desc:
        kw['cname'] = desc['component']
    if 'ec' in desc:
        kw['ec'] = gen.full_ec(desc['ec'])
    if 'structure' in desc:
        kw['structure'] = desc['structure']
    return kw


def run_random(spec, rec):
    v = spec['version']
    rng = gen.rng_for(spec['seed'], 'c09', spec['world'], v)
    for i in range(spec['n']):
        level = 2 if i % 3 else 1
        try:
            if spec['world'] == 'segment' and i % 8 == 5:
                # open-ended segments: fields beyond the table, written in any order
                opens = c02.open_ended_segments(v)
                w = hist.make_world('segment', v, level, rng, seg=opens[(i // 8) % len(opens)])
                rec.count('open_ended_segment_worlds')
            elif spec['world'] == 'segment' and i % 4 == 3:
                # the segment lives in a message declaring non-default delimiters: text assigned to its fields is split
                # with those
                w = hist.make_world('segment', v, level, rng, ec=gen.delimiter_set(rng, v, with_truncation=False))
                rec.count('custom_delimiter_worlds')
            elif spec['world'] == 'message' and i % 4 == 3:
                # both messages declare the same non-default delimiters: copies between them keep every separator's role
                w = hist.make_world('message', v, level, rng, ec=gen.delimiter_set(rng, v, with_truncation=False))
                rec.count('custom_delimiter_worlds')
            else:
                w = hist.make_world(spec['world'], v, level, rng)
        except RuntimeError as e:
            rec.count('world_unavailable')
            continue
        L = rng.randint(2, 30 if i % 5 == 0 else 10)
        REFUSED = ('f_level_set', 'f_version_set', 'f_wrong_name', 'f_foreign_elem', 'f_settype', 'f_deep_level_set')

        def nxt(k, w=w, L=L):
            if k >= L:
                return None
            if rng.random() < 0.12:
                return hist.wild_op(w, rng.choice(REFUSED))
            return w.random_op()
        done, maxreps = run_history(w, None, rec, gen_next=nxt)
        sig = (w.describe(), [[o[0]] + [x if isinstance(x, int) else str(x)[:1] for x in o[1:]] for o in done])
        rec.evaluation(sig, nontrivial=len(done) >= 2 and maxreps >= 2)
        for o in done:
            rec.seen('op_kinds', '%s/%s' % (spec['world'], o[0]))
        if i < 1:
            rec.sample({'world': w.describe(), 'ops': done[:8], 'final': w.encode_real(sorted(w.els)[0])[:200]})
    rec.seen('versions', v)
    rec.seen('worlds', spec['world'])


def reduced_alphabet(w):
    """~12 ops over 2 names for the exhaustive tier; values are filled in at execution time"""
    names = w.names[:2]
    a, b = sorted(w.els)
    ops = []
    for n in names:
        ops += [['set', a, n], ['add_helper', a, n], ['del', a, n], ['setidx', a, n, 1], ['delidx', a, n, 1]]
    ops += [['add_new', a, names[0]], ['add_helper', b, names[0]], ['copy', a, names[0], b]]
    return ops


def concretise(w, op):
    """fill values; return None when the op is not applicable in the current model state (history pruned)"""
    k, el, name = op[0], op[1], op[2]
    m = w.model[el]
    reps = m[name] if isinstance(m, dict) else w.reps(el, name)
    if w.kind == 'message':
        val = lambda: w.text_for(name)
    elif w.kind == 'segment':
        val = lambda: w.value_for(name)
    else:
        val = lambda: w.val()
    if k == 'set':
        return ['set', el, name, name.lower(), val()]
    if k in ('add_helper', 'add_new'):
        if w.kind == 'field' and reps:
            return None
        if w.level == 1 and hasattr(w, 'maxcard') and w.maxcard(name) != -1 and len(reps) >= w.maxcard(name):
            return None
        return [k, el, name, val()]
    if k == 'del':
        return ['del', el, name, name.lower()] if reps else None
    if k == 'setidx':
        return ['setidx', el, name, op[3], val()] if len(reps) > op[3] else None
    if k == 'delidx':
        return ['delidx', el, name, op[3]] if len(reps) > op[3] else None
    if k == 'copy':
        src = w.model[op[3]]
        sreps = src[name] if isinstance(src, dict) else w.reps(op[3], name)
        return ['copy', el, name, op[3]] if sreps else None
    return None


def run_exhaustive(spec, rec):
    v = spec['version']
    rng = gen.rng_for(spec['seed'], 'c09-ex', spec['world'])
    probe = hist.make_world(spec['world'], v, 2, rng)
    kw = world_kwargs(probe.describe())
    alpha = reduced_alphabet(probe)
    n = 0
    for L in range(1, spec['L'] + 1):
        for seq in itertools.product(range(len(alpha)), repeat=L):
            w = hist.make_world(spec['world'], v, 2, rng, **kw)
            ops = []

            def nxt(i, seq=seq, w=w):
                while i < len(seq):
                    return concretise(w, alpha[seq[i]])
                return None
            done, maxreps = run_history(w, None, rec, gen_next=nxt)
            if len(done) == L:
                n += 1
                rec.evaluation((spec['world'], seq), nontrivial=L >= 2)
    rec.count('exhaustive_histories_%s' % spec['world'], n)
    rec.sample({'exhaustive': spec['world'], 'alphabet': alpha, 'max_len': spec['L'], 'complete_histories': n})


def check_group_copy(core, v, level, ec, how, rec, rng, zdst=False):
    """a group (segments holding repetitions, components and sub-components) copied from one message into another that
    declares the same delimiters: the copy encodes line for line like the source, and the source keeps its group"""
    from .. import structref, er7ref
    msgs = tables.messages(v)
    cands = []
    for name in ('ADT_A01', 'ORU_R01', 'OML_O21', 'ADT_A05', 'RDE_O11', 'ORM_O01'):
        node = msgs.get(name)
        if node is None or not structref.usable(v, node) or not structref.msh9_for(v, name):
            continue
        for g in node.children:
            if g.kind == 'GRP' and g.card[1] == -1 and g.children and g.children[0].kind == 'SEG' and \
                    [x.name for x in node.children].count(g.name) == 1:
                rows = []
                for r in gen.usable_rows(v, g.children[0].name):
                    if r.kind == 'sequence' and r.card[1] == -1:
                        cs = tables.components(v, r.datatype)
                        if len(cs) >= 2 and all(c.ok and c.card[1] != 0 and c.kind == 'leaf' and c.datatype in ('ST', 'ID', 'IS')
                                                for c in cs[:2]):
                            rows.append(r)
                if rows:
                    cands.append((name, g, rows[0]))
    if not cands:
        rec.count('group_copy_not_applicable')
        return
    name, g, row = cands[rng.randrange(len(cands))]
    case = {'kind': 'group-copy', 'version': v, 'level': level, 'structure': name, 'group': g.name, 'how': how,
            'ec': {k: c for k, c in (ec or {}).items() if k not in ('SEGMENT', 'GROUP')} or None, 'zdst': zdst}
    rec.evaluation(('group-copy', v, level, name, g.name, how, hooks_ec(ec), zdst))
    chars = ec or er7ref.STD
    F, C, R = chars['FIELD'], chars['COMPONENT'], chars['REPETITION']
    seg = g.children[0].name
    line = seg + F * row.num + 'a1' + C + 'b1' + R + 'a2' + C + 'b2'
    try:
        ms = []
        for k in range(2):
            # (the receiving message may be a locally defined one, which holds standard groups looked up in the version)
            mname = 'ZDT_Z01' if (zdst and k == 1) else name
            m = core.Message(mname, version=v, validation_level=level, encoding_chars=gen.full_ec(ec) if ec else None)
            m.msh.msh_7 = '20200101'
            m.msh.msh_9 = structref.msh9_for(v, name).replace('^', C)
            m.msh.msh_10 = str(k)
            ms.append(m)
        src, dst = ms
        grp = src.add_group(g.name)
        sg = grp.add_segment(seg)
        setattr(sg, row.name.lower(), 'a1' + C + 'b1')
        getattr(sg, row.name.lower())[1] = 'a2' + C + 'b2'
        if [l for l in src.to_er7().split('\r') if l][1:] != [line]:
            rec.count('group_copy_source_not_as_expected')
            return
        gname = g.name.lower()
        if how == 'proxy':
            setattr(dst, gname, getattr(src, gname))
        elif how == 'element':
            setattr(dst, gname, getattr(src, gname)[0])
        elif how == 'text':
            setattr(dst, gname, line)
        else:
            dst.add_group(g.name)
            getattr(dst, gname)[0] = getattr(src, gname)[0]
        rec.count('group_copies_compared')
        got_dst = [l for l in dst.to_er7().split('\r') if l][1:]
        got_src = [l for l in src.to_er7().split('\r') if l][1:]
        if got_dst != [line] or got_src != [line] or getattr(dst, gname)[0] is getattr(src, gname)[0]:
            rec.violation('group-not-copied-by-value', case, {'source': got_src, 'copy': got_dst, 'expected': [line]})
    except Exception as e:
        rec.violation('valid-operation-raised:group-copy:%s' % type(e).__name__, case, {'exc': repr(e)[:200]})


def check_group_copy_profile(core, v, level, how, rec, rng):
    """both messages are built on a message profile that allows the first segment of a repeatable group twice (the standard
    allows it once): a group holding two of them is copied like any other"""
    from .. import structref
    from . import c18
    msgs = tables.messages(v)
    cands = []
    for name in ('ADT_A01', 'ORU_R01', 'ADT_A05', 'RDE_O11', 'ORM_O01', 'OML_O21'):
        node = msgs.get(name)
        if node is None or not structref.usable(v, node) or not structref.msh9_for(v, name):
            continue
        for g in node.children:
            if g.kind == 'GRP' and g.card[1] == -1 and g.children and g.children[0].kind == 'SEG' and \
                    g.children[0].card == (1, 1) and [x.name for x in node.children].count(g.name) == 1 and \
                    tables.segment_name_places(node)[g.children[0].name] == 1:
                rows = [r for r in gen.usable_rows(v, g.children[0].name) if r.kind == 'leaf' and r.datatype in ('ST', 'ID', 'IS', 'SI')
                        and r.card[1] != 0]
                if rows:
                    cands.append((name, g, rows[0]))
    if not cands:
        rec.count('group_copy_not_applicable')
        return
    name, g, row = cands[rng.randrange(len(cands))]
    seg = g.children[0].name
    t = c18.thaw(tables.lib(v).MESSAGES[name])
    for c in t[1]:
        if c[0] == g.name:
            c[1][1][0][2] = [1, 2]
    prof = {name: c18.freeze(t)}
    case = {'kind': 'group-copy-profile', 'version': v, 'level': level, 'structure': name, 'group': g.name, 'how': how}
    rec.evaluation(('group-copy-profile', v, level, name, g.name, how))
    val = '1' if row.datatype == 'SI' else 'A'
    lines = [seg + '|' * row.num + val, seg + '|' * row.num + val]
    try:
        ms = []
        for k in range(2):
            m = core.Message(name, reference=prof, version=v, validation_level=level)
            m.msh.msh_7 = '20200101'
            m.msh.msh_9 = structref.msh9_for(v, name)
            m.msh.msh_10 = str(k)
            ms.append(m)
        src, dst = ms
        grp = src.add_group(g.name)
        for _ in range(2):
            setattr(grp.add_segment(seg), row.name.lower(), val)
        if [l for l in src.to_er7().split('\r') if l][1:] != lines:
            rec.count('group_copy_source_not_as_expected')
            return
        gname = g.name.lower()
        if how in ('proxy', 'index'):
            setattr(dst, gname, getattr(src, gname))
        elif how == 'element':
            setattr(dst, gname, getattr(src, gname)[0])
        else:
            setattr(dst, gname, '\r'.join(lines))
        rec.count('group_copies_compared_under_a_profile')
        got_dst = [l for l in dst.to_er7().split('\r') if l][1:]
        if got_dst != lines:
            rec.violation('group-not-copied-by-value:profile', case, {'copy': got_dst, 'expected': lines})
    except Exception as e:
        rec.violation('valid-operation-raised:group-copy-profile:%s' % type(e).__name__, case, {'exc': repr(e)[:200]})


def _leaf_values(el):
    from .. import treeinv
    out = []
    for e in treeinv.walk(el):
        if e.classname == 'SubComponent':
            x = e.value
            out.append(repr(getattr(x, 'value', x)))
    return out


def check_typed_copy(core, v, level, rec, rng):
    """a child holding a number, a sequence id or a date (0 included) taken from another element is copied by value: the copy
    encodes like the source, the source is left as it was - by field, by whole segment, into a message"""
    from hl7apy import parser
    cands = []
    for sname in ('PID', 'OBX', 'NK1', 'PV1', 'EVN', 'OBR', 'AL1', 'DG1'):
        for r in tables.segments(v).get(sname) or []:
            if r.ok and r.card[1] != 0 and r.kind == 'leaf' and r.datatype in gen.TYPED and sname != 'MSH':
                cands.append((sname, r))
    if not cands:
        return
    for sname, r in rng.sample(cands, min(4, len(cands))):
        lits = gen.TYPED[r.datatype]
        lit = lits[0] if rng.random() < 0.5 else rng.choice(lits)      # the first literal of NM and SI is 0
        line = sname + '|' * r.num + lit
        case = {'kind': 'typed-copy', 'version': v, 'level': level, 'field': r.name, 'value': lit}
        rec.evaluation(('typed-copy', v, level, r.name, lit))
        try:
            src = parser.parse_segment(line, version=v, validation_level=level)
            line = src.to_er7()
            held = _leaf_values(src)
        except Exception:
            rec.count('typed_copy_source_not_judgeable')       # (what STRICT accepts is C13's business, the encoding C01's)
            continue
        try:
            dst = core.Segment(sname, version=v, validation_level=level)
            setattr(dst, r.name.lower(), getattr(src, r.name.lower()))
            got = {'field-copy': dst.to_er7()}
            if level == 2:
                m = core.Message('ADT_A01', version=v, validation_level=2)
                m.add(core.Segment(sname, version=v, validation_level=2))
                setattr(m, sname.lower(), src)
                got['segment-copied-into-a-message'] = m.children.list[-1].to_er7()
            got['source-afterwards'] = src.to_er7()
            # the values held (not only their encodings) are those of the source
            vals = {'field-copy': _leaf_values(dst), 'source-afterwards': _leaf_values(src)}
            if level == 2:
                vals['segment-copied-into-a-message'] = _leaf_values(m.children.list[-1])
            badv = {k: x for k, x in vals.items() if x != held}
            if badv:
                rec.violation('copy-of-a-typed-leaf-holds-another-value', case, {'source_holds': held, 'differs': badv})
                continue
            rec.count('typed_copies_compared')
            bad = {k: x for k, x in got.items() if x != line}
            if bad:
                rec.violation('copy-of-a-typed-leaf-differs-from-the-source', case, {'source': line, 'differs': bad})
        except Exception as e:
            rec.violation('typed-copy-raised:%s' % type(e).__name__, case, {'exc': repr(e)[:160]})


def check_cross_delimiter_copy(core, v, level, rec, rng):
    """a child taken from a message that uses OTHER delimiters is copied by value: in the receiving message it encodes the
    same leaves at the same places with the RECEIVER's delimiters, and the source is left as it was - by proxy, by element,
    by field and into an existing segment"""
    ec_dst = gen.delimiter_set(rng, v, with_truncation=False)
    ec_src = gen.delimiter_set(rng, v, with_truncation=False) if rng.random() < 0.5 else None
    src_chars = gen.full_ec(ec_src) if ec_src else er7ref.STD
    if any(ec_dst[k] in 'abcdxyz0123456789' for k in ('FIELD', 'COMPONENT', 'SUBCOMPONENT', 'REPETITION', 'ESCAPE')) or \
            any(src_chars[k] in 'abcdxyz0123456789' for k in ('FIELD', 'COMPONENT', 'SUBCOMPONENT', 'REPETITION', 'ESCAPE')):
        return

    def line(ch, n):
        return 'PID' + ch['FIELD'] * 3 + 'a%d' % n + ch['COMPONENT'] + 'b' + ch['REPETITION'] + 'c' + ch['COMPONENT'] + 'd' + \
            ch['FIELD'] * 2 + 'x%d' % n + ch['COMPONENT'] + 'y' + ch['SUBCOMPONENT'] + 'z'
    n = rng.randrange(1000)
    for how in ('proxy', 'element', 'field', 'field-into-existing'):
        case = {'kind': 'cross-delimiter-copy', 'version': v, 'level': level, 'how': how,
                'ec_dst': {k: x for k, x in ec_dst.items() if k not in ('SEGMENT', 'GROUP')},
                'ec_src': {k: x for k, x in (ec_src or {}).items() if k not in ('SEGMENT', 'GROUP')} or None}
        rec.evaluation(('cross-delimiter-copy', v, level, how, hooks_ec(ec_dst), hooks_ec(ec_src)))
        try:
            try:
                kw = {'encoding_chars': dict(ec_src)} if ec_src else {}
                m2 = core.Message('ADT_A01', version=v, validation_level=level, **kw)
                m2.pid = line(src_chars, n)
                # the same segment written with the receiver's delimiters must be acceptable to the receiver at all
                probe = core.Message('ADT_A01', version=v, validation_level=level, encoding_chars=dict(ec_dst))
                probe.pid = line(gen.full_ec(ec_dst), n)
                ok = m2.pid.to_er7() == line(src_chars, n) and probe.pid.to_er7() == line(gen.full_ec(ec_dst), n)
            except Exception:
                ok = False
            if not ok:
                rec.count('cross_delimiter_source_not_judgeable')
                continue
            m1 = core.Message('ADT_A01', version=v, validation_level=level, encoding_chars=dict(ec_dst))
            want = line(gen.full_ec(ec_dst), n)
            if how == 'proxy':
                m1.pid = m2.pid
            elif how == 'element':
                m1.pid = m2.pid[0]
            else:
                if how == 'field-into-existing':
                    m1.pid = 'PID' + ec_dst['FIELD'] * 5 + 'old'
                m1.pid.pid_5 = m2.pid.pid_5
                m1.pid.pid_3 = m2.pid.pid_3[0]
                m1.pid.add(core.Field('PID_3', version=v, validation_level=level))
                m1.pid.pid_3[1] = m2.pid.pid_3[1]
            rec.count('cross_delimiter_copies_compared')
            if m1.pid.to_er7() != want or m2.pid.to_er7() != line(src_chars, n):
                rec.violation('copy-between-messages-with-different-delimiters-differs', case,
                              {'copy': m1.pid.to_er7()[:120], 'want': want[:120], 'source_afterwards': m2.pid.to_er7()[:120]})
        except Exception as e:
            rec.violation('cross-delimiter-copy-raised:%s' % type(e).__name__, case, {'exc': repr(e)[:160]})


def check_children_iterables(core, v, level, rec, rng):
    """`element.children = <iterable>` holds the children the iterable yields, whatever kind of iterable it is (list, tuple,
    generator, iterator): same encoding as adding them one by one"""
    seg = 'PID' if tables.segments(v).get('PID') else sorted(s for s, r in tables.segments(v).items() if r)[0]
    rows = [r for r in gen.usable_rows(v, seg) if r.kind == 'leaf' and r.datatype in ('ST', 'ID', 'IS', 'SI', 'NM')][:3]
    if len(rows) < 2:
        return

    def fresh():
        out = []
        for k, r in enumerate(rows):
            f = core.Field(r.name, version=v, validation_level=level)
            f.value = gen.witness(v, r.datatype)
            out.append(f)
        return out
    ref = core.Segment(seg, version=v, validation_level=level)
    for f in fresh():
        ref.add(f)
    want = ref.to_er7()
    for kind, mk in (('list', lambda fs: fs), ('tuple', tuple), ('generator', lambda fs: (f for f in fs)), ('iterator', iter),
                     ('reversed-twice', lambda fs: reversed(fs[::-1]))):
        case = {'kind': 'children-iterable', 'version': v, 'level': level, 'iterable': kind}
        rec.evaluation(('children-iterable', v, level, kind))
        try:
            s = core.Segment(seg, version=v, validation_level=level)
            s.children = mk(fresh())
            got = s.to_er7()
        except Exception as e:
            rec.violation('children-iterable-raised:%s' % type(e).__name__, case, {'exc': repr(e)[:160]})
            continue
        rec.count('children_iterables_compared')
        if got != want:
            rec.violation('children-assigned-from-an-iterable-differ', case, {'encoded': got, 'expected': want})


def hooks_ec(ec):
    return ''.join(ec[k] for k in ('FIELD', 'COMPONENT', 'SUBCOMPONENT', 'REPETITION', 'ESCAPE')) if ec else 'std'


def run_groupcopy(spec, rec):
    from hl7apy import core
    v = spec['version']
    rng = gen.rng_for(spec['seed'], 'c09-groupcopy', v)
    for i in range(spec['n']):
        ec = None if i % 2 == 0 else gen.delimiter_set(rng, v, with_truncation=False)
        check_group_copy(core, v, 1 + i % 3 % 2, ec, ('proxy', 'element', 'text', 'index')[i % 4], rec, rng,
                         zdst=(i % 5 == 2))
        if i % 6 == 1:
            check_children_iterables(core, v, 1 + (i // 6) % 2, rec, rng)
        if i % 2 == 0:
            check_typed_copy(core, v, 1 + (i // 2) % 2, rec, rng)
        check_cross_delimiter_copy(core, v, 1 + i % 2, rec, rng)
        if i % 3 == 0:
            check_group_copy_profile(core, v, 1 + (i // 3) % 2, ('proxy', 'element', 'text')[(i // 3) % 3], rec, rng)
    rec.seen('versions', v)


def run_shard(spec, rec):
    {'random': run_random, 'exhaustive': run_exhaustive, 'groupcopy': run_groupcopy}[spec['kind']](spec, rec)


def replay(case, rec):
    if case.get('kind') == 'group-copy-profile':
        from hl7apy import core
        for k in range(8):
            check_group_copy_profile(core, case['version'], case['level'], case['how'], rec, gen.rng_for(k, 'replay'))
        return
    if case.get('kind') == 'children-iterable':
        from hl7apy import core
        check_children_iterables(core, case['version'], case['level'], rec, gen.rng_for(0, 'replay'))
        return
    if case.get('kind') == 'typed-copy':
        from hl7apy import core
        for k in range(40):
            check_typed_copy(core, case['version'], case['level'], rec, gen.rng_for(k, 'replay'))
        return
    if case.get('kind') == 'cross-delimiter-copy':
        from hl7apy import core
        for k in range(20):
            check_cross_delimiter_copy(core, case['version'], case['level'], rec, gen.rng_for(k, 'replay'))
        return
    if case.get('kind') == 'group-copy':
        from hl7apy import core
        for k in range(8):
            check_group_copy(core, case['version'], case['level'], gen.full_ec(case['ec']) if case.get('ec') else None,
                             case['how'], rec, gen.rng_for(k, 'replay'), zdst=case.get('zdst', False))
        return
    d = case['world']
    rng = gen.rng_for(0, 'replay')
    w = hist.make_world(d['kind'], d['version'], d['level'], rng, **world_kwargs(d))
    done, _ = run_history(w, case['ops'], rec)
    rec.evaluation(('replay', case['ops']))


def floors(tier, m):
    out = []
    if m['counters'].get('typed_copies_compared', 0) < 200:
        out.append('typed leaves copied: %s' % m['counters'].get('typed_copies_compared'))
    c = m['counters']
    if c.get('cross_delimiter_copies_compared', 0) < 100 and not m['violation_counts']:
        out.append('copies between messages with different delimiters: %s' % c.get('cross_delimiter_copies_compared'))
    if c.get('encoding_comparisons', 0) < 20000:
        out.append('fewer than 20000 lock-step comparisons')
    if m['distinct_nontrivial'] < 2000:
        out.append('fewer than 2000 distinct non-trivial histories')
    for wk in ('segment', 'field', 'message'):
        if c.get('exhaustive_histories_%s' % wk, 0) < 100:
            out.append('exhaustive tier for %s too small' % wk)
        for k in ('set', 'setidx', 'add_new', 'add_helper', 'del', 'delidx', 'remove', 'copy'):
            if '%s/%s' % (wk, k) not in m['seen'].get('op_kinds', ()):
                out.append('operation %s never ran on %s' % (k, wk))
    if len(m['seen'].get('versions', ())) != len(tables.versions()):
        out.append('not every version')
    return out
