"""C16 - MLLP: one framed request in, exactly one correctly routed reply out.

Monitor: history checker (mllpdrv.check_connection) over events recorded at the client boundary and in harness-supplied
handler classes; schedule control through a socketpair driven into the real server object (exact chunk boundaries) and
a real loopback server with simultaneous clients under a 1 microsecond switch interval.
"""
import random
import socket
import sys
import threading
import time

from .. import tables, gen, mllpdrv, structref
from . import c01

ID = 'C16'
LEVEL = 'exploration'
RULE = ('(a) all splittings into <= 3 chunks of a short frame (exhaustive) and seeded splittings into <= 8 chunks of long and '
        'multi-byte UTF-8 frames, delivered with exact chunk control through socketpair into the real server object; (b) 2-64 '
        'simultaneous TCP clients with distinct messages, random chunking and random delays inside reply(); (c) faults: no '
        'start block, close at every prefix, stall beyond the server timeout, undecodable bytes, junk; message kinds: '
        'registered (two types, with handler arguments), unregistered, non-HL7; plus to_mllp() framing of generated messages; '
        'non-trivial = >= 2 chunks, or >= 2 concurrent clients, or a fault; distinct = (frame class, cut positions or client '
        'behaviour, concurrency level)')
ASSUMPTIONS = [
    'the ER7 text extracted by the server is the framed text up to the optional final segment terminator',
    'payloads the statement does not classify (empty payload, blank line inside the payload, two frames on one connection) are '
    'judged only on: at most one handler invocation, connection closed',
    'stall cases use a 0.35 s server timeout; the verdict is "no handler ran and the connection was closed", not a duration',
    'well-framed splittings run against a 5 s server timeout; a run in which the driver itself paused for more than 40% of it '
    'between two chunks is repeated, and is inconclusive (no verdict) when that persists',
    'ECONNRESET after the server closed with unread input counts as closed',
]
SHARD_TIMEOUT = {'quick': 900, 'thorough': 3600}

REG = {'ADT^A01^ADT_A01': 'OkHandler', 'ADT^A01': 'OkHandler', 'ORU^R01^ORU_R01': 'OtherHandler',
       'QBP^Q11^QBP_Q11K': 'Raising:KeyError', 'QBP^Q11^QBP_Q11V': 'Raising:ValueError', 'QBP^Q11^QBP_Q11I': 'Raising:IndexError'}


REG_ARGS = {'ADT^A01^ADT_A01': ['x', 1], 'ADT^A01': [], 'ORU^R01^ORU_R01': [], 'ERR': ['e1', 2]}
SEND = ['SND', 'SND', 'SND', 'S\u2028ND', 'S\u2029ND', 'S\x85ND', 'S\x0cND', 'S\x1dN\x1eD', 'S\x1fND']   # MSH-3 values


def plan(tier, seed):
    specs = [{'kind': 'splits', 'part': p, 'parts': 4} for p in range(4)]
    specs += [{'kind': 'random_splits', 'part': p, 'n': 150 if tier == 'quick' else 2500} for p in range(4)]
    specs += [{'kind': 'faults', 'part': p, 'parts': 2} for p in range(2)]
    specs += [{'kind': 'tcp', 'part': p, 'rounds': 6 if tier == 'quick' else 48} for p in range(4)]
    specs += [{'kind': 'codecs', 'part': p, 'n': 40 if tier == 'quick' else 600} for p in range(2)]
    specs.append({'kind': 'to_mllp', 'n': 60 if tier == 'quick' else 1500})
    specs.append({'kind': 'big_replies', 'sizes': [70000, 300000, 1200000, 5000000] if tier == 'quick' else
                  [70000, 300000, 1200000, 5000000, 20000000, 3000000, 9000000, 65536, 65537, 262144]})
    return specs


def handlers_for(hist, delay=None):
    Ok, Other, Err = mllpdrv.make_handlers(hist, delay)
    # (handlers may be registered with extra arguments: the error handler too)
    R = mllpdrv.make_handlers.Raising
    return {'ADT^A01^ADT_A01': (Ok, 'x', 1), 'ADT^A01': (Ok,), 'ORU^R01^ORU_R01': (Other,), 'ERR': (Err, 'e1', 2),
            'QBP^Q11^QBP_Q11K': (R, 'KeyError'), 'QBP^Q11^QBP_Q11V': (R, 'ValueError'), 'QBP^Q11^QBP_Q11I': (R, 'IndexError')}


def one_connection(drv, hist, chunks, payload, kind, rec, case, sig, nontrivial=True, client_wait=8.0, reg=None):
    for attempt in range(3):
        n0 = len(hist.events)
        received, ending, alive = drv.run(chunks, client_wait)
        evs = hist.events[n0:]
        if kind != 'framed' or drv.max_gap < 0.4 * drv.timeout:
            break
        # the driver itself was descheduled for a good part of the server's read timeout between two chunks: whatever
        # the server did is no verdict on the splitting (wall-clock hiccup on a loaded machine) - run it again
        rec.count('connections_rerun_after_slow_driver')
    else:
        rec.count('connections_inconclusive_slow_driver')
        return
    rec.evaluation(sig, nontrivial)
    rec.count('connections')
    rec.count('handler_events_observed', len(evs))
    if alive:
        rec.violation('handler-thread-still-running', case, {'ending': ending})
        return
    for cause, detail in mllpdrv.check_connection(evs, payload, received, ending, reg or REG, kind,
                                                  None if reg else REG_ARGS, encoding=drv.encoding):
        rec.violation(cause, case, detail)
    rec.count('connections_checked:%s' % kind)
    rec.seen('endings', ending)


def short_text(cid='c1'):
    return 'MSH|^~\\&|A|B|||2020||ADT^A01|%s|P|2.5' % cid


def run_splits(spec, rec):
    hist = mllpdrv.History()
    drv = mllpdrv.PairDriver(handlers_for(hist))
    try:
        text = short_text()
        data = mllpdrv.frame(text)
        all_cuts = list(mllpdrv.splittings(len(data), 3))
        mine = [c for i, c in enumerate(all_cuts) if i % spec['parts'] == spec['part']]
        for cuts in mine:
            chunks = mllpdrv.cut(data, cuts)
            case = {'kind': 'split', 'text': text, 'cuts': list(cuts)}
            one_connection(drv, hist, chunks, text, 'framed', rec, case, ('split', cuts), nontrivial=len(cuts) >= 1)
        if spec['part'] == 0:
            rec.count('splittings_total', len(all_cuts))
        rec.count('splittings_run', len(mine))
        rec.sample({'kind': 'split', 'frame_len': len(data), 'example_cuts': list(mine[len(mine) // 2])})
    finally:
        drv.close()


def random_text(rng, kind):
    v = rng.choice(['2.3', '2.5', '2.6', '2.7', '2.8', '2.8.2'])
    cid = 'c%d' % rng.randrange(10 ** 6)
    msh2 = '^~\\&'
    tail = ''
    if v >= '2.7' and rng.random() < 0.6:
        msh2 += '#'       # five encoding characters; the header may end at MSH-12 or go on
    if rng.random() < 0.4:
        tail = rng.choice(['|', '|1', '||', '|||AL|NE', '||||||UNICODE UTF-8'])
    if kind == 'registered':
        m9 = rng.choice(['ADT^A01^ADT_A01', 'ORU^R01^ORU_R01', 'ADT^A01', 'ADT^A01^ADT_A01', 'QBP^Q11^QBP_Q11K',
                         'QBP^Q11^QBP_Q11V', 'QBP^Q11^QBP_Q11I'])
    elif kind == 'unregistered':
        m9 = rng.choice(['ADT^A02^ADT_A02', 'QBP^Q11^QBP_Q11', 'ZZZ^Z01', '', 'ADT'])
    else:
        return rng.choice(['HELLO WORLD', 'PID|1||x', 'MS|^~\\&|x', 'msh|^~\\&|A', 'MSH', 'X' * 300,
                           'not hl7 at all\rsecond line'])
    # characters that str.splitlines() takes for line ends are ordinary data in ER7 (the segment terminator is CR)
    lines = ['MSH|%s|%s|FAC|RCV|FAC|20200101||%s|%s|P|%s%s' % (msh2, rng.choice(SEND), m9, cid, v, tail)]
    for i in range(rng.randint(0, 6)):
        name = rng.choice(['PID', 'PV1', 'OBX', 'NK1', 'ZZ1'])
        val = rng.choice(['x', 'Müller^Jörg', '日本語', 'a b c', 'A^B&C~D', 'é', '\U0001F600',
                          'x' * rng.randint(1, 400), 'first line\nsecond line', 'tab\there', '\n'])
        lines.append('%s|%d|%s' % (name, i + 1, val))
    # segments end with CR; senders that end them with CR LF are tolerated by the parser and framed like any other text
    return ('\r\n' if rng.random() < 0.1 else '\r').join(lines)


def run_random_splits(spec, rec):
    rng = gen.rng_for(spec['seed'], 'c16-rs', spec['part'])
    hist = mllpdrv.History()
    drv = mllpdrv.PairDriver(handlers_for(hist))
    try:
        for i in range(spec['n']):
            kind = rng.choice(['registered', 'registered', 'unregistered', 'nonhl7'])
            text = random_text(rng, kind)
            data = mllpdrv.frame(text)
            k = rng.randint(1, 8)
            cuts = sorted(rng.sample(range(1, len(data)), min(k - 1, len(data) - 1))) if k > 1 else []
            if rng.random() < 0.3 and len(data) > 6:
                cuts = sorted(set(cuts + [rng.choice([1, 2, 3, len(data) - 1, len(data) - 2, len(data) - 3])]))
            case = {'kind': 'random_split', 'text': text, 'cuts': cuts, 'msgkind': kind}
            one_connection(drv, hist, mllpdrv.cut(data, cuts), text, 'framed', rec, case,
                           ('rs', kind, len(data), tuple(cuts)), nontrivial=len(cuts) >= 1)
            rec.seen('message_kinds', kind)
            if i == 0:
                rec.sample({'kind': 'random_split', 'msgkind': kind, 'bytes': len(data), 'cuts': cuts})
    finally:
        drv.close()


CODECS = {'latin-1': 'Müller^Jörg é ñ ß þ', 'cp1252': 'Müller € „x“ œ', 'iso-8859-15': 'Renée € Š œ', 'cp437': 'Müller ░ π',
          'utf-8': 'Müller 日本語 \U0001F600', 'ascii': 'plain'}


def run_codecs(spec, rec):
    """a request handler class with its own `encoding` (the way to serve another character set): the payload is decoded
    and the reply encoded with that one codec - the client receives the handler's reply, character for character"""
    rng = gen.rng_for(spec['seed'], 'c16-codecs', spec['part'])
    for enc in sorted(CODECS):
        hist = mllpdrv.History()
        drv = mllpdrv.PairDriver(handlers_for(hist), encoding=enc)
        try:
            words = CODECS[enc].split(' ')
            for i in range(spec['n']):
                kind = rng.choice(['registered', 'registered', 'unregistered', 'nonhl7'])
                if kind == 'nonhl7':
                    text = 'HELLO ' + rng.choice(words)
                else:
                    m9 = rng.choice(['ADT^A01^ADT_A01', 'ORU^R01^ORU_R01', 'ADT^A01'] if kind == 'registered' else
                                    ['ADT^A02^ADT_A02', 'ZZZ^Z01'])
                    text = 'MSH|^~\\&|SND|FAC|RCV|FAC|20200101||%s|c%d|P|2.5' % (m9, rng.randrange(10 ** 6))
                    for j in range(rng.randint(1, 3)):
                        text += '\rPID|%d||%s' % (j + 1, ' '.join(rng.choice(words) for _ in range(rng.randint(1, 4))))
                data = mllpdrv.frame(text, enc)
                k = rng.randint(1, 5)
                cuts = sorted(rng.sample(range(1, len(data)), min(k - 1, len(data) - 1))) if k > 1 else []
                case = {'kind': 'codec', 'text': text, 'cuts': cuts, 'encoding': enc, 'msgkind': kind}
                one_connection(drv, hist, mllpdrv.cut(data, cuts), text, 'framed', rec, case,
                               ('codec', enc, kind, text, tuple(cuts)))
                rec.count('connections_with_handler_class_encoding')
                if any(ord(ch) > 127 for ch in text[-12:]):
                    rec.count('non_ascii_replies_under_handler_class_encoding')
            rec.seen('handler_class_encodings', enc)
        finally:
            drv.close()


def run_faults(spec, rec):
    rng = gen.rng_for(spec['seed'], 'c16-f', spec['part'])
    hist = mllpdrv.History()
    # short server timeout: stalls and truncated frames end quickly; every verdict here is "no handler, closed"
    drv = mllpdrv.PairDriver(handlers_for(hist), timeout=0.35)
    try:
        text = short_text('cF')
        data = mllpdrv.frame(text)
        cases = []
        # close at every prefix (half-close and full stop)
        for i in range(0, len(data)):
            cases.append(('early-close', [data[:i], None] if i else [None], text, 'malformed', ('close', i)))
        # no start block
        for bad in (b'X' + data[1:], data[1:], b'\x1c\x0d', b'MSH|^~\\&|A\r\x1c\x0d', b'\x00' + data, b' ' + data):
            cases.append(('no-start-block', [bad, None], text, 'malformed', ('nosb', bad[:6])))
        # stall beyond the server timeout at a few prefixes
        for i in (0, 1, 2, 3, len(data) // 2, len(data) - 2, len(data) - 1):
            cases.append(('stall', ([data[:i]] if i else []) + [('sleep', 0.8)], text, 'malformed', ('stall', i)))
        # undecodable bytes inside a complete frame
        for bad in (b'\x0bMSH|\xff\xfe|\r\x1c\x0d', b'\x0bMSH|^~\\&|A|\xc3\r\x1c\x0d', b'\x0b\x80\x1c\x0d'):
            cases.append(('undecodable', [bad], text, 'malformed', ('undec', bad[:8])))
        # junk
        for _ in range(20):
            junk = bytes(rng.randrange(256) for _ in range(rng.randint(1, 40)))
            if junk[:1] == mllpdrv.SB:
                junk = b'Q' + junk
            cases.append(('junk', [junk, None], text, 'malformed', ('junk', junk[:8])))
        # degenerate payloads the statement does not classify
        for deg in (b'\x0b\x1c\x0d', b'\x0b\r\x1c\x0d', mllpdrv.SB + b'MSH|^~\\&|A|B|||2020||ADT^A01|c|P|2.5\r\rPID|1\r' +
                    mllpdrv.EB + mllpdrv.CR, data + data, data + b'trailing'):
            cases.append(('degenerate', [deg, None], text, 'degenerate', ('deg', deg[:12])))
        mine = [c for i, c in enumerate(cases) if i % spec['parts'] == spec['part']]
        for what, chunks, payload, kind, sig in mine:
            case = {'kind': 'fault', 'what': what, 'chunks': [c.hex() if isinstance(c, bytes) else c for c in chunks]}
            one_connection(drv, hist, chunks, payload, kind, rec, case, ('fault',) + tuple(str(x) for x in sig),
                           client_wait=3.0)
            rec.seen('fault_kinds', what)
        rec.sample({'kind': 'faults', 'cases': len(mine)})
    finally:
        drv.close()


def run_tcp(spec, rec):
    from hl7apy.mllp import MLLPServer, MLLPRequestHandler
    rng = gen.rng_for(spec['seed'], 'c16-tcp', spec['part'])
    hist = mllpdrv.History()
    accepted = []

    class LoggingRequestHandler(MLLPRequestHandler):
        def setup(self):
            accepted.append(self.client_address[1])
            MLLPRequestHandler.setup(self)
    delay_rng = random.Random(spec['seed'] + 17)
    srv = MLLPServer('127.0.0.1', 0, handlers_for(hist, lambda: time.sleep(delay_rng.random() * 0.003)), timeout=5,
                     request_handler_class=LoggingRequestHandler)
    srv.daemon_threads = True
    port = srv.server_address[1]
    t = threading.Thread(target=srv.serve_forever, kwargs={'poll_interval': 0.05}, daemon=True)
    t.start()
    old_si = sys.getswitchinterval()
    sys.setswitchinterval(1e-6)
    # yield injection at the LINE events of mllp.py (sys.monitoring): every handler thread gives the GIL away between
    # statements of the request handler with probability 0.2, so windows between two statements are actually exercised
    from .. import sched
    inj = sched.YieldInjector(spec['seed'] * 31 + spec['part'], p_logic=0.0005, p_anchor=0.2)
    sched.start(inj.on_line)
    try:
        for rnd in range(spec['rounds']):
            N = [64, 32, 16, 8, 4, 2][(rnd + spec['part']) % 6]
            results = {}
            lock = threading.Lock()
            bar = threading.Barrier(N)
            texts = {}
            for i in range(N):
                kind = rng.choice(['registered', 'registered', 'registered', 'unregistered', 'nonhl7'])
                tx = random_text(rng, kind)
                texts[i] = (kind, tx.replace('|c', '|r%dn%dc' % (rnd, i), 1) if kind != 'nonhl7' else tx + ' #%d/%d' % (rnd, i))
            cutplans = {i: sorted(rng.sample(range(1, len(mllpdrv.frame(texts[i][1]))), min(3, len(mllpdrv.frame(texts[i][1])) - 1)))
                        for i in range(N)}
            sleeps = {i: [rng.random() * 0.002 for _ in range(5)] for i in range(N)}

            def client(i):
                data = mllpdrv.frame(texts[i][1])
                try:
                    with lock:
                        s = socket.create_connection(('127.0.0.1', port), timeout=15)
                        lport = s.getsockname()[1]
                        time.sleep(0.002)
                except OSError as e:
                    results[i] = ('connect-failed', repr(e), None)
                    try:
                        bar.wait(20)
                    except threading.BrokenBarrierError:
                        pass
                    return
                try:
                    bar.wait(20)
                except threading.BrokenBarrierError:
                    pass
                try:
                    s.setsockopt(socket.IPPROTO_TCP, socket.TCP_NODELAY, 1)
                    prev = 0
                    for k, c in enumerate(cutplans[i] + [len(data)]):
                        s.sendall(data[prev:c])
                        prev = c
                        time.sleep(sleeps[i][k % 5])
                    out, ending = mllpdrv.read_all(s, 15)
                    results[i] = (out, ending, lport)
                except OSError as e:
                    results[i] = ('io-failed', repr(e), lport)
                finally:
                    s.close()
            ts = [threading.Thread(target=client, args=(i,)) for i in range(N)]
            [x.start() for x in ts]
            [x.join(60) for x in ts]
            time.sleep(0.05)
            evs = list(hist.events)
            for i in range(N):
                kind, tx = texts[i]
                case = {'kind': 'tcp', 'clients': N, 'text': tx, 'cuts': cutplans[i], 'round': rnd}
                res = results.get(i)
                rec.evaluation(('tcp', N, rnd, i, spec['part']), nontrivial=N >= 2)
                if res is None or res[0] in ('connect-failed', 'io-failed'):
                    if res is not None and res[2] is not None and res[2] in accepted:
                        rec.violation('accepted-connection-failed', case, {'result': str(res)[:150]})
                    else:
                        rec.count('environment_events')       # never reached the application (backlog / reset)
                    continue
                out, ending, lport = res
                mine = [e for e in evs if e.get('msg', '').rstrip('\r') == tx]
                if lport not in accepted and not mine:
                    rec.count('environment_events')
                    continue
                rec.count('concurrent_connections')
                for cause, detail in mllpdrv.check_connection(mine, tx, out, ending, REG, 'framed'):
                    rec.violation(cause + ':concurrent', case, dict(detail, clients=N))
                # no other client's reply
                others = [mllpdrv.digest(texts[j][1]) for j in range(N) if j != i]
                if any(o.encode() in out for o in others):
                    rec.violation('received-another-clients-reply', case, {'received': out[:80]})
            rec.seen('concurrency_levels', str(N))
            hist.events[:] = []
        rec.sample({'kind': 'tcp', 'levels': sorted(rec.seen_sets.get('concurrency_levels', []))})
    finally:
        sched.stop()
        rec.count('yields_injected_in_request_handlers', inj.anchor_yields)
        sys.setswitchinterval(old_si)
        srv.shutdown()
        srv.server_close()


def run_big_replies(spec, rec):
    """replies larger than the socket buffers reach the client whole"""
    hist = mllpdrv.History()
    Ok, Other, Err = mllpdrv.make_handlers(hist)
    size = {'n': 0}

    class BigOk(Ok):
        def reply(self):
            r = 'BIG|%s|' % mllpdrv.digest(self.incoming_message) + 'x' * size['n']
            hist.add(ev='reply', cls='BigOk', msg=self.incoming_message, reply=r, thread=threading.get_ident())
            return r
    drv = mllpdrv.PairDriver({'ADT^A01': (BigOk,), 'ERR': (Err,)})
    try:
        for i, n in enumerate(spec['sizes']):
            size['n'] = n
            text = short_text('big%d' % i)
            data = mllpdrv.frame(text)
            cuts = [] if i % 2 else [3, len(data) - 2]
            case = {'kind': 'big_reply', 'text': text, 'cuts': cuts, 'reply_bytes': n}
            one_connection(drv, hist, mllpdrv.cut(data, cuts), text, 'framed', rec, case, ('big', n, tuple(cuts)),
                           client_wait=30.0, reg={'ADT^A01': 'BigOk'})
            rec.count('big_reply_connections')
            del hist.events[:]
    finally:
        drv.close()
    rec.sample({'kind': 'big_reply', 'sizes': spec['sizes']})


def run_to_mllp(spec, rec):
    from hl7apy import parser
    from hl7apy.consts import MLLP_ENCODING_CHARS as MC
    rng = gen.rng_for(spec['seed'], 'c16-mllp')
    hist = mllpdrv.History()
    drv = mllpdrv.PairDriver(handlers_for(hist))
    try:
        for i in range(spec['n']):
            v = rng.choice(tables.versions())
            msgs = tables.messages(v)
            names = [n for n in sorted(msgs) if structref.usable(v, msgs[n]) and structref.msh9_for(v, n)]
            name = rng.choice(names)
            text, _, _ = c01.build_message(rng, v, name, msgs[name], 'random', 2)
            rec.evaluation(('to_mllp', v, name, i))
            try:
                m = parser.parse_message(text)
                er = m.to_er7()
                ml = m.to_mllp()
            except Exception as e:
                rec.violation('to_mllp-raised:%s' % type(e).__name__, {'kind': 'to_mllp', 'text': text}, {'exc': repr(e)[:200]})
                continue
            if ml != MC.SB + er + MC.CR + MC.EB + MC.CR:
                rec.violation('to_mllp-is-not-SB-er7-CR-EB-CR', {'kind': 'to_mllp', 'text': text}, {'tail': repr(ml[-6:])})
                continue
            rec.count('to_mllp_checks')
            if i % 3 == 0:
                # the server extracts from such a frame exactly the text that was framed
                n0 = len(hist.events)
                out, ending, alive = drv.run([ml.encode('utf-8')])
                evs = [e for e in hist.events[n0:] if e['ev'] in ('ctor', 'err-ctor')]
                rec.count('frames_fed_to_server')
                if len(evs) != 1 or evs[0]['msg'].rstrip('\r') != er or not (er + '\r').startswith(evs[0]['msg']):
                    rec.violation('server-extracted-different-text', {'kind': 'to_mllp', 'text': text},
                                  {'got': (evs[0]['msg'][:80] if evs else None), 'n': len(evs)})
    finally:
        drv.close()
    rec.sample({'kind': 'to_mllp', 'n': spec['n']})


def run_shard(spec, rec):
    {'splits': run_splits, 'random_splits': run_random_splits, 'faults': run_faults, 'tcp': run_tcp,
     'to_mllp': run_to_mllp, 'big_replies': run_big_replies, 'codecs': run_codecs}[spec['kind']](spec, rec)


def replay(case, rec):
    hist = mllpdrv.History()
    drv = mllpdrv.PairDriver(handlers_for(hist))
    try:
        if case['kind'] in ('split', 'random_split', 'tcp'):
            data = mllpdrv.frame(case['text'])
            one_connection(drv, hist, mllpdrv.cut(data, case['cuts']), case['text'], 'framed', rec, case, ('replay',))
        elif case['kind'] == 'codec':
            drv.close()
            drv = mllpdrv.PairDriver(handlers_for(hist), encoding=case['encoding'])
            data = mllpdrv.frame(case['text'], case['encoding'])
            one_connection(drv, hist, mllpdrv.cut(data, case['cuts']), case['text'], 'framed', rec, case, ('replay',))
        elif case['kind'] == 'fault':
            chunks = [bytes.fromhex(c) if isinstance(c, str) else (tuple(c) if isinstance(c, list) else c)
                      for c in case['chunks']]
            one_connection(drv, hist, chunks, short_text('cF'), 'degenerate' if case['what'] == 'degenerate' else 'malformed',
                           rec, case, ('replay',))
        elif case['kind'] == 'big_reply':
            run_big_replies({'sizes': [case['reply_bytes']] * 2}, rec)
        else:
            run_to_mllp({'seed': 0, 'n': 30}, rec)
    finally:
        drv.close()


def floors(tier, m):
    out = []
    c = m['counters']
    if c.get('splittings_run', 0) != c.get('splittings_total', -1):
        out.append('exhaustive splittings incomplete: %s of %s' % (c.get('splittings_run'), c.get('splittings_total')))
    if c.get('splittings_run', 0) < 500:
        out.append('fewer than 500 exhaustive splittings')
    if c.get('concurrent_connections', 0) < 400:
        out.append('fewer than 400 concurrent connections judged (%s)' % c.get('concurrent_connections'))
    need = {'early-close', 'no-start-block', 'stall', 'undecodable', 'junk', 'degenerate'}
    if set(m['seen'].get('fault_kinds', ())) != need:
        out.append('fault kinds seen: %s' % sorted(m['seen'].get('fault_kinds', ())))
    if c.get('handler_events_observed', 0) < 1000:
        out.append('handler monitors reached too rarely')
    if c.get('yields_injected_in_request_handlers', 0) < 100:
        out.append('yield injection never reached the request handlers')
    if c.get('non_ascii_replies_under_handler_class_encoding', 0) < 40:
        out.append('non-ASCII replies under a handler class with its own encoding: %s' %
                   c.get('non_ascii_replies_under_handler_class_encoding'))
    if c.get('to_mllp_checks', 0) < 30:
        out.append('to_mllp barely checked')
    return out
