"""C01 - ER7 parse -> encode is the identity on canonical messages.

Monitor: string identity at the boundary (parse_*(text).to_er7() == text); er7ref.canonical_segment keeps the
generator inside the property's domain (a generator self-check failure is an internal error, not a violation).
"""
from .. import tables, er7ref, gen, structref
from . import c02

ID = 'C01'
LEVEL = 'exploration'
RULE = ('(a) every defined field / component / sub-component row of every version round-tripped alone through '
        'parse_segment / parse_field / parse_component (exhaustive); (b) seeded canonical multi-field segments per '
        '(version, segment) with repetitions, components, sub-components, escape sequences and typed leaves; (c) whole '
        'messages generated from the message structures, find_groups on and off; non-trivial = at least one populated '
        'position and the identity comparison ran; distinct = (version, entry point, find_groups, segment names, '
        'tokenizer shape of every segment, leaf text)')
ASSUMPTIONS = [
    'domain: positions the version defines and does not withdraw, leaves well-formed escaped text without outer blanks, '
    'numeric leaves in plain decimal form, years 1000-9999, MSH-7 given explicitly',
    'er7ref / tables.py are correct; generated text is checked canonical before use',
]


def plan(tier, seed):
    specs = []
    nseg = 3500 if tier == 'quick' else 30000
    nstand = 1500 if tier == 'quick' else 15000
    for v in tables.versions():
        specs.append({'kind': 'sweep', 'version': v})
        specs.append({'kind': 'segments', 'version': v, 'n': nseg})
        specs.append({'kind': 'standalone', 'version': v, 'n': nstand})
        if tier == 'quick':
            specs.append({'kind': 'messages', 'version': v, 'rounds': 1, 'part': 0, 'parts': 1})
        else:
            for part in range(3):
                specs.append({'kind': 'messages', 'version': v, 'rounds': 4, 'part': part, 'parts': 3})
    return specs


def _cause(version, seg, row_names, exc=None):
    rows = tables.segments(version).get(seg)
    if rows is None:
        return 'segment-uninstantiable', '%s|%s' % (version, seg)
    for r in rows:
        if r.name in row_names and not r.ok:
            return 'malformed-table-row', '%s|%s|%s' % (version, seg, r.name)
    if exc is not None:
        return 'raised:%s' % type(exc).__name__, '%s|%s' % (version, seg)
    return 'roundtrip-differs', '%s|%s' % (version, seg)


def check_segment_text(parser, version, seg, text, row_names, rec, kind, ec=None):
    case = {'kind': 'segment', 'version': version, 'segment': seg, 'text': text, 'rows': row_names, 'ec': ec}
    name, fields = er7ref.tokenize_segment(text, ec or er7ref.STD)
    rec.evaluation((kind, version, text))
    try:
        sg = parser.parse_segment(text, version=version, encoding_chars=gen.full_ec(ec) if ec else None)
        # a parentless segment encodes with the characters it is given
        out = sg.to_er7(gen.full_ec(ec)) if ec else sg.to_er7()
    except Exception as e:
        cause, row = _cause(version, seg, row_names, e)
        rec.violation(cause, case, {'exc': repr(e)[:200]}, row=row)
        return
    rec.count('segment_identity_comparisons')
    if out != text:
        cause, row = _cause(version, seg, row_names)
        rec.violation(cause, case, {'in': text[:300], 'out': out[:300]}, row=row)


def run_sweep(spec, rec):
    from hl7apy import parser
    v = spec['version']
    n = 0
    for seg, rows in sorted(tables.segments(v).items()):
        if rows is None:
            rec.evaluation(('sweep-bad', v, seg))
            try:
                out = parser.parse_segment(seg + '|x', version=v).to_er7()
                if out != seg + '|x':
                    rec.violation('segment-uninstantiable', {'kind': 'segment', 'version': v, 'segment': seg,
                                                            'text': seg + '|x', 'rows': []}, {'out': out},
                                  row='%s|%s' % (v, seg))
            except Exception as e:
                rec.violation('segment-uninstantiable', {'kind': 'segment', 'version': v, 'segment': seg,
                                                        'text': seg + '|x', 'rows': []}, {'exc': repr(e)[:200]},
                              row='%s|%s' % (v, seg))
            continue
        for row in rows:
            if seg == 'MSH' and row.num in (1, 2):
                continue
            text, _, _ = c02.field_witness(v, row)
            line = c02._expect_text(seg, row.num, text) if row.num else None
            if line is None:
                continue
            n += 1
            check_segment_text(parser, v, seg, line, [row.name], rec, 'sweep')
    rec.count('field_rows_swept', n)
    rec.count('field_rows_in_tables', sum(len(r) for r in tables.segments(v).values() if r) - 2)
    # component / sub-component rows through parse_field and parse_component; textual leaves carry every escape sequence
    # of the version (already escaped text is emitted unchanged, whichever class serves the datatype in this version)
    from . import c06
    textual = set(c06.textual_classes(v))
    seqs = ''.join('\\%s\\' % l for l in er7ref.letters_for(v))

    class _W(object):
        @staticmethod
        def witness(version, dt):
            w = gen.witness(version, dt)
            return (w + seqs + 'z') if dt in textual else w
    hosts = c02._host_fields(v)
    comp_hosts = {}
    for dt in tables.complex_datatypes(v):
        for crow in tables.components(v, dt):
            if crow.ok and crow.kind == 'sequence' and crow.card[1] != 0:
                comp_hosts.setdefault(crow.datatype, crow.name)
    for dt in tables.complex_datatypes(v):
        host = hosts.get(dt)
        for crow in tables.components(v, dt):
            if not crow.ok or crow.card[1] == 0:
                continue
            val = _W.witness(v, crow.datatype) if crow.kind == 'leaf' else None
            if val is None:
                subs = [s for s in tables.components(v, crow.datatype) if s.card[1] != 0 and s.ok and s.kind == 'leaf']
                if not subs:
                    continue
                val = '&' * (subs[0].num - 1) + _W.witness(v, subs[0].datatype)
            text = '^' * (crow.num - 1) + val
            if host:
                rec.evaluation(('sweep-field', v, host, text))
                case = {'kind': 'field', 'version': v, 'name': host, 'text': text}
                try:
                    out = parser.parse_field(text, name=host, version=v).to_er7()
                    rec.count('field_identity_comparisons')
                    if out != text:
                        rec.violation('roundtrip-differs', case, {'in': text, 'out': out}, row='%s|%s' % (v, crow.name))
                except Exception as e:
                    rec.violation('raised:%s' % type(e).__name__, case, {'exc': repr(e)[:200]},
                                  row='%s|%s' % (v, crow.name))
            chost = comp_hosts.get(dt)
            if chost:
                # dt used as a component datatype: its rows are sub-components there
                if crow.kind != 'leaf':
                    continue
                text2 = '&' * (crow.num - 1) + _W.witness(v, crow.datatype)
                rec.evaluation(('sweep-comp', v, chost, text2))
                case = {'kind': 'component', 'version': v, 'name': chost, 'text': text2}
                try:
                    out = parser.parse_component(text2, name=chost, version=v).to_er7()
                    rec.count('component_identity_comparisons')
                    if out != text2:
                        rec.violation('roundtrip-differs', case, {'in': text2, 'out': out},
                                      row='%s|%s' % (v, crow.name))
                except Exception as e:
                    rec.violation('raised:%s' % type(e).__name__, case, {'exc': repr(e)[:200]},
                                  row='%s|%s' % (v, crow.name))
    rec.seen('versions_swept', v)
    rec.sample({'kind': 'sweep', 'version': v, 'example': c02._expect_text('PID', 5, 'x')})


def run_segments(spec, rec):
    from hl7apy import parser
    v = spec['version']
    rng = gen.rng_for(spec['seed'], 'c01-seg', v)
    segs = sorted(s for s, rows in tables.segments(v).items() if rows and s != 'MSH' and gen.usable_rows(v, s))
    std = gen.full_ec(er7ref.std(v))
    prev = None
    for i in range(spec['n']):
        seg = segs[i % len(segs)] if i < len(segs) else rng.choice(segs)
        ec = std
        if i % 4 == 3:
            # explicit non-default delimiters (also: the previous set with only the escape character changed, in the same
            # process)
            ec = gen.delimiter_set(rng, v)
            if prev is not None and i % 8 == 7:
                ec = dict(prev, ESCAPE=rng.choice([c for c in '!$%*+;<=>?@' if c not in prev.values()]))
            prev = ec
            rec.count('segments_with_custom_delimiters')
        line, names = gen.segment_line(rng, v, seg, ec)
        if not er7ref.canonical_segment(line, ec):
            rec.inconclusive_reason('generator left the canonical domain: %r' % line[:120])
            return
        if ec is std:
            check_segment_text(parser, v, seg, line, names, rec, 'rand')
        else:
            check_segment_text(parser, v, seg, line, names, rec, 'rand-ec', ec)
        name, fields = er7ref.tokenize_segment(line, ec)
        rec.seen('shapes', str(er7ref.shape(fields))[:80]) if i % 50 == 0 else None
        if i < 2:
            rec.sample({'kind': 'segment', 'version': v, 'text': line})
    rec.seen('versions_random', v)


def run_standalone(spec, rec):
    from hl7apy import parser
    v = spec['version']
    rng = gen.rng_for(spec['seed'], 'c01-stand', v)
    ec = gen.full_ec(er7ref.std(v))
    frows = [r for s, rows in sorted(tables.segments(v).items()) if rows for r in gen.usable_rows(v, s)
             if r.datatype != 'varies']
    crows = [c for dt in tables.complex_datatypes(v) for c in tables.components(v, dt) if c.ok and c.card[1] != 0]
    for i in range(spec['n']):
        if i % 2 == 0:
            row = rng.choice(frows)
            text = gen.field_value(rng, v, row, ec, max_reps=1)
            rec.evaluation(('field', v, row.name, text))
            case = {'kind': 'field', 'version': v, 'name': row.name, 'text': text}
            try:
                out = parser.parse_field(text, name=row.name, version=v).to_er7()
                rec.count('field_identity_comparisons')
                if out != text:
                    rec.violation('roundtrip-differs', case, {'in': text, 'out': out}, row='%s|%s' % (v, row.name))
            except Exception as e:
                rec.violation('raised:%s' % type(e).__name__, case, {'exc': repr(e)[:200]},
                              row='%s|%s' % (v, row.name))
        else:
            crow = rng.choice(crows)
            if crow.kind == 'leaf' or tables.is_base(v, crow.datatype):
                text = gen.leaf_text(rng, ec, crow.datatype)
            else:
                subs = [s for s in tables.components(v, crow.datatype)]
                if any(s.kind != 'leaf' or not s.ok for s in subs) or not subs:
                    continue
                last = rng.randint(1, len(subs))
                vals = [gen.leaf_text(rng, ec, s.datatype) if (k == last - 1 or rng.random() < 0.5) and s.card[1] != 0
                        else '' for k, s in enumerate(subs[:last])]
                if not vals[-1]:
                    vals[-1] = gen.leaf_text(rng, ec, subs[last - 1].datatype)
                text = '&'.join(vals)
            rec.evaluation(('comp', v, crow.name, text))
            case = {'kind': 'component', 'version': v, 'name': crow.name, 'text': text}
            try:
                out = parser.parse_component(text, name=crow.name, version=v).to_er7()
                rec.count('component_identity_comparisons')
                if out != text:
                    rec.violation('roundtrip-differs', case, {'in': text, 'out': out}, row='%s|%s' % (v, crow.name))
            except Exception as e:
                rec.violation('raised:%s' % type(e).__name__, case, {'exc': repr(e)[:200]},
                              row='%s|%s' % (v, crow.name))


def build_message(rng, v, name, node, mode, max_rep, ec=None, toks=None):
    ec = ec or gen.full_ec(er7ref.std(v))
    lines = structref.emit(node, rng, mode, max_rep)
    out = []
    names = []
    for l in lines:
        if l.seg == 'MSH':
            out.append(structref.msh_line(v, name, ec, vid=rng is not None and rng.random() < 0.3))
        else:
            t, rn = gen.segment_line(rng, v, l.seg, ec, toks=toks, max_fields=3)
            out.append(t)
            names.append((l.seg, rn))
    return '\r'.join(out), lines, names


def check_message(parser, v, name, text, fg, rec, names=()):
    case = {'kind': 'message', 'version': v, 'structure': name, 'find_groups': fg, 'text': text}
    rec.evaluation(('msg', v, fg, text))
    try:
        out = parser.parse_message(text, find_groups=fg).to_er7()
    except Exception as e:
        rec.violation('raised:%s' % type(e).__name__, case, {'exc': repr(e)[:300]}, row='%s|%s' % (v, name))
        return
    rec.count('message_identity_comparisons')
    rec.count('message_identity_comparisons_fg_%s' % fg)
    if out != text:
        a, b = text.split('\r'), out.split('\r')
        diff = [(x, y) for x, y in zip(a, b) if x != y][:2]
        rec.violation('message-roundtrip-differs', case, {'in_segments': len(a), 'out_segments': len(b),
                                                         'first_diff': str(diff)[:300]}, row='%s|%s' % (v, name))


def run_messages(spec, rec):
    from hl7apy import parser
    v = spec['version']
    rng = gen.rng_for(spec['seed'], 'c01-msg', v, spec['part'])
    msgs = tables.messages(v)
    names = sorted(msgs)
    names = [n for i, n in enumerate(names) if i % spec['parts'] == spec['part']]
    for name in names:
        node = msgs[name]
        why = structref.unusable_reason(v, node)
        if why is None and structref.msh9_for(v, name) is None:
            why = 'unnameable-in-MSH-9'
        if why is not None:
            rec.count('structures_skipped')
            rec.count('structures_skipped:' + why.split(':')[0])
            if why.startswith('missing-reference') or why == 'no-MSH':
                rec.violation('structure-lists-child-without-reference', {'kind': 'structure', 'version': v,
                                                                          'structure': name}, {'why': why},
                              row='%s|%s' % (v, name))
            continue
        rec.count('structures_used')
        for r in range(spec['rounds']):
            mode = ('required', 'all', 'random', 'random')[(r + rng.randint(0, 3)) % 4]
            text, lines, rn = build_message(rng, v, name, node, mode, 1 if mode == 'required' else 3)
            if rng.random() < 0.4:
                # canonical messages may hold segments the structure does not list (Z segments, segments of other types)
                parts = text.split('\r')
                instruct = set(tables.segment_name_places(node))
                others = [s_ for s_ in sorted(tables.segments(v)) if s_ not in instruct and tables.segments(v)[s_]
                          and gen.usable_rows(v, s_)]
                for _ in range(rng.randint(1, 2)):
                    if rng.random() < 0.5 or not others:
                        extra = 'Z%s%s|%s' % (rng.choice('ABZ01'), rng.choice('ABZ19'), gen.leaf_text(rng, er7ref.std(v)))
                    else:
                        extra, _ = gen.segment_line(rng, v, rng.choice(others), gen.full_ec(er7ref.std(v)), max_fields=2)
                    parts.insert(rng.randint(1, len(parts)), extra)
                text = '\r'.join(parts)
                rec.count('messages_with_out_of_structure_segments')
            for fg in (True, False):
                check_message(parser, v, name, text, fg, rec)
            if rng.random() < 0.3:
                # the same kind of message under non-default delimiters; and under a structure name the version does not
                # know (the parser then falls back to a flat message): the delimiters of MSH-1/MSH-2 still govern
                ec = gen.delimiter_set(rng, v)
                text2, _, _ = build_message(rng, v, name, node, 'random', 2, ec=ec)
                for fg in (True, False):
                    check_message(parser, v, name, text2, fg, rec)
                lines2 = text2.split('\r')
                c = ec['COMPONENT']
                unknown = structref.msh_line(v, name, ec, msh9='XQX' + c + 'Y77') if len(tables.components(v, 'MSG')) < 3 \
                    else structref.msh_line(v, name, ec, msh9='XQX' + c + 'Y77' + c + 'XQX_Y77')
                check_message(parser, v, 'XQX_Y77', '\r'.join([unknown] + lines2[1:]), True, rec)
                rec.count('messages_with_custom_delimiters', 3)
            if r == 0 and rec.counters.get('message_identity_comparisons', 0) < 4:
                rec.sample({'kind': 'message', 'version': v, 'text': text[:400]})
    rec.seen('versions_messages', v)


def run_shard(spec, rec):
    {'sweep': run_sweep, 'segments': run_segments, 'standalone': run_standalone,
     'messages': run_messages}[spec['kind']](spec, rec)


def replay(case, rec):
    from hl7apy import parser
    v = case['version']
    if case['kind'] == 'segment':
        check_segment_text(parser, v, case['segment'], case['text'], case.get('rows', []), rec, 'replay', case.get('ec'))
    elif case['kind'] == 'message':
        check_message(parser, v, case['structure'], case['text'], case['find_groups'], rec)
    elif case['kind'] in ('field', 'component'):
        fn = parser.parse_field if case['kind'] == 'field' else parser.parse_component
        rec.evaluation(('replay', case['text']))
        try:
            out = fn(case['text'], name=case['name'], version=v).to_er7()
            if out != case['text']:
                rec.violation('roundtrip-differs', case, {'in': case['text'], 'out': out}, row='%s|%s' % (v, case['name']))
        except Exception as e:
            rec.violation('raised:%s' % type(e).__name__, case, {'exc': repr(e)[:200]}, row='%s|%s' % (v, case['name']))


def floors(tier, m):
    out = []
    c = m['counters']
    nv = len(tables.versions())
    for k in ('versions_swept', 'versions_random', 'versions_messages'):
        if len(m['seen'].get(k, ())) != nv:
            out.append('%s: %d of %d versions' % (k, len(m['seen'].get(k, ())), nv))
    if c.get('field_rows_swept', 0) < 0.95 * c.get('field_rows_in_tables', 1e9):
        out.append('fewer than 95%% of defined positions swept: %s/%s' % (c.get('field_rows_swept'),
                                                                          c.get('field_rows_in_tables')))
    if c.get('segment_identity_comparisons', 0) < 5000:
        out.append('fewer than 5000 segment identity comparisons')
    if c.get('message_identity_comparisons_fg_True', 0) < 500 or c.get('message_identity_comparisons_fg_False', 0) < 500:
        out.append('fewer than 500 message comparisons per find_groups value')
    if c.get('field_identity_comparisons', 0) < 1000 or c.get('component_identity_comparisons', 0) < 1000:
        out.append('too few standalone field/component comparisons')
    return out
