"""C10 - the element tree stays internally consistent through any API history.

Monitor: invariant at a hook.  After every library call an operation makes (successful or rejected) the trees of the
world are walked and I1-I6 asserted: I1 child.parent is the lister, I2 no element listed by two parents or twice,
I3 by-name index == name-filtered list, I4 len/iter/in/[] agree, I5 shadow (traversal) children only have a traversal
parent and are not listed, I6 one version and one level per tree.
"""
from .. import tables, gen, hist, treeinv
from . import c09

ID = 'C10'
LEVEL = 'exploration'
RULE = ('random histories over segments, fields and messages (all versions, both levels) mixing valid edits, re-attachment of '
        'attached elements, adding a child twice, assigning an own repetition, construction with parent=, deletions through '
        'the list view, shadow reads, value/children assignment and rejected calls; invariants I1-I6 evaluated after every '
        'library call; non-trivial = a mutator returned or raised and the walker visited >= 2 elements; distinct = (world, '
        'operation-kind history)')
ASSUMPTIONS = [
    'the walker reads __dict__ / children.list / indexes only, so observing does not create shadow children',
    'old children replaced by `element.children = [...]` are not listed any more and are not judged',
]


def plan(tier, seed):
    n = 200 if tier == 'quick' else 3500
    specs = [{'world': k, 'version': v, 'n': n} for v in tables.versions() for k in ('segment', 'field', 'message', 'component')]
    specs += [{'world': 'parsed', 'version': v, 'n': 40 if tier == 'quick' else 600} for v in tables.versions()]
    return specs


class InvGuard(object):
    def __init__(self, world, rec):
        self.world, self.rec = world, rec
        self.op, self.done, self.stop = None, [], False

    def check(self, when):
        roots = self.world.roots()
        errs = treeinv.invariants(roots)
        self.rec.count('invariant_evaluations')
        self.rec.count('elements_walked', treeinv.count_nodes(roots))
        if errs:
            code = errs[0][0]
            self.rec.violation('%s:%s' % (code, self.op[0]), {'world': self.world.describe(),
                                                            'ops': list(self.done) + [self.op]},
                               {'when': when, 'first': errs[0][1][:300], 'n': len(errs)})
            self.stop = True

    def __call__(self, thunk):
        try:
            r = thunk()
        except Exception:
            self.rec.count('calls_raised')
            if not self.stop:
                self.check('after a rejected call')
            raise
        self.rec.count('calls_returned')
        if not self.stop:
            self.check('after a successful call')
        return r


def run_history(world, rec, L, ops=None):
    rng = world.rng
    g = InvGuard(world, rec)
    world.guard = g
    step = 0
    kinds = []
    while not g.stop:
        if ops is not None:
            if step >= len(ops):
                break
            op = ops[step]
        else:
            if step >= L:
                break
            r = rng.random()
            if r < 0.25:
                op = hist.wild_op(world, rng.choice(hist.FAULTS))
            elif r < 0.6:
                op = hist.wild_op(world, rng.choice(hist.WILD))
            else:
                try:
                    op = world.random_op()
                except Exception:
                    step += 1
                    continue
        step += 1
        g.op = op
        try:
            if op[0][:2] in ('f_', 'w_'):
                hist.apply_wild(world, op)
            else:
                world.apply_real(op)
                world.apply_model(op)
        except hist.Skip:
            continue
        except Exception:
            pass
        g.done.append(op)
        kinds.append(op[0])
        rec.seen('op_kinds', op[0])
    rec.evaluation((world.describe(), kinds), nontrivial=len(kinds) >= 1)
    return g.done


def run_parsed(spec, rec):
    """trees built by the parser (group finding on/off, foreign and Z segments) and then edited through the API"""
    from hl7apy import parser
    from .. import structref, er7ref
    from . import c01
    v = spec['version']
    rng = gen.rng_for(spec['seed'], 'c10-parsed', v)
    msgs = tables.messages(v)
    names = [n for n in sorted(msgs) if structref.usable(v, msgs[n]) and structref.msh9_for(v, n)]
    for i in range(spec['n']):
        name = rng.choice(names)
        text, lines, _ = c01.build_message(rng, v, name, msgs[name], rng.choice(['required', 'random']), 3)
        parts = text.split('\r')
        if rng.random() < 0.5:
            parts.insert(rng.randint(1, len(parts)), 'ZZ1|a^b~c')
        text = '\r'.join(parts)
        for fg in (True, False):
            case = {'world': {'kind': 'parsed', 'version': v}, 'text': text, 'find_groups': fg}
            rec.evaluation(('parsed', v, fg, text))
            try:
                m = parser.parse_message(text, find_groups=fg, validation_level=rng.choice([1, 2]))
            except Exception:
                rec.count('parse_rejected')
                continue
            steps = [('parse', lambda: None),
                     ('to_er7+validate', lambda: (m.to_er7(), m.validate(return_errors=True))),
                     ('read-absent', lambda: (m.msh.msh_3.hd_1, len(m.children), repr(m.children))),
                     ('edit', lambda: setattr(m.msh, 'msh_10', 'x%d' % i)),
                     ('add-z', lambda: m.add_segment('ZZ2')),
                     ('delete-last', lambda: m.children.remove(m.children.list[-1]))]
            for what, fn in steps:
                try:
                    fn()
                except Exception:
                    rec.count('calls_raised')
                errs = treeinv.invariants([m])
                rec.count('invariant_evaluations')
                rec.count('elements_walked', treeinv.count_nodes([m]))
                if errs:
                    rec.violation('%s:parsed-tree:%s' % (errs[0][0], what), case, {'first': errs[0][1][:300]})
                    break
        rec.seen('op_kinds', 'parsed-tree')
    rec.seen('versions', v)


def run_shard(spec, rec):
    if spec['world'] == 'parsed':
        return run_parsed(spec, rec)
    v = spec['version']
    rng = gen.rng_for(spec['seed'], 'c10', spec['world'], v)
    for i in range(spec['n']):
        level = 1 if i % 2 else 2
        try:
            w = hist.make_world(spec['world'], v, level, rng)
        except RuntimeError:
            rec.count('world_unavailable')
            continue
        done = run_history(w, rec, rng.randint(3, 16))
        if i < 1:
            rec.sample({'world': w.describe(), 'ops': done[:6]})
    rec.seen('versions', v)


def replay(case, rec):
    d = case['world']
    if d['kind'] == 'parsed':
        from hl7apy import parser
        m = parser.parse_message(case['text'], find_groups=case['find_groups'])
        errs = treeinv.invariants([m])
        rec.evaluation(('replay',))
        if errs:
            rec.violation('%s:parsed-tree:parse' % errs[0][0], case, {'first': errs[0][1][:300]})
        return
    w = hist.make_world(d['kind'], d['version'], d['level'], gen.rng_for(0, 'replay'), **c09.world_kwargs(d))
    run_history(w, rec, 0, ops=case['ops'])


def floors(tier, m):
    out = []
    c = m['counters']
    if c.get('invariant_evaluations', 0) < 10000:
        out.append('fewer than 10000 invariant evaluations')
    if c.get('calls_raised', 0) < 1000:
        out.append('fewer than 1000 rejected calls observed')
    missing = set(hist.WILD + hist.FAULTS) - set(m['seen'].get('op_kinds', ()))
    if missing:
        out.append('operation kinds never executed: %s' % sorted(missing))
    if len(m['seen'].get('versions', ())) != len(tables.versions()):
        out.append('not every version')
    return out
