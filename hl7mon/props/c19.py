"""C19 - concurrent use gives the same results as sequential use.

Monitor: every call of a corpus is first evaluated alone; then calls run from several threads and every result is
compared with its sequential reference.  Schedule sources: (a) stress under a 1 microsecond switch interval; (b) seeded
yield injection at LINE events (sys.monitoring), concentrated on the functions touching process-wide state; (c) a
deterministic baton scheduler serialising two threads with forced hand-overs - every single-switch schedule at anchor
events of warm calls, seeded ones elsewhere; (d) cold-start schedules in fresh subprocesses: the first user of each
version is pre-empted at its n-th anchor event (lazy library loading, module-level table construction, first lookups)
while a second thread uses the same version.
"""
import json
import os
import subprocess
import sys
import collections
import threading
import time

from .. import tables, gen, sched, env, structref, er7ref

ID = 'C19'
LEVEL = 'exploration'
RULE = ('corpus of parse / build / encode / validate / datatype-factory calls over all versions and both levels (explicit '
        'arguments, MSH-7 fixed); (a) 2-16 threads under sys.setswitchinterval(1e-6), (b) yield injection at LINE events, (c) '
        'enumerated single-switch baton schedules at anchor events + seeded switches elsewhere, (d) cold-start schedules in '
        'fresh processes (first use of every version pre-empted at its n-th anchor event); non-trivial = at least one switch '
        'occurred between the start and the end of a call; distinct = (call pair / corpus slice, schedule source, switch trace)')
ASSUMPTIONS = [
    'interleavings are explored at Python-line granularity under the GIL; free-threaded builds and C-level races are out of reach',
    'the sequential reference of a call is its result when run alone (for cold schedules: in the parent process)',
]
SHARD_TIMEOUT = {'quick': 900, 'thorough': 5400}


def plan(tier, seed):
    specs = []
    specs += [{'kind': 'stress', 'part': p, 'threads': t, 'rounds': 2 if tier == 'quick' else 20}
              for p, t in enumerate([2, 4, 8, 16])]
    specs += [{'kind': 'inject', 'part': p, 'rounds': 2 if tier == 'quick' else 20} for p in range(3)]
    specs += [{'kind': 'baton', 'part': p, 'parts': 6, 'pairs': 3 if tier == 'quick' else 20,
               'cap': 160 if tier == 'quick' else 600} for p in range(6)]
    specs += [{'kind': 'byfunc', 'part': p, 'parts': 8, 'pairs_per_function': 1 if tier == 'quick' else 3, 'kinds_per_function': 5 if tier == 'quick' else 12,
               'max_plans': 16 if tier == 'quick' else 40} for p in range(8)]
    # cold-start: switch at the first hit of the d-th distinct anchor location of the first user of each version
    # (about 125 distinct locations on this tree); thorough adds switches at later occurrences (j-th anchor event)
    D = measure_distinct_anchor_locations() + 6
    # quick: every distinct location, each for 6 of the 12 versions (rotating); thorough: for all 12 versions
    # the first text assignment of a process (before the parser is imported) passes through many more locations - the bodies
    # of the modules it makes the library import: every one of them is a hand-over point too, for three versions (quick:
    # 2.5, one of the versions sharing the v2.7 datatypes, one other - rotating with the seed) or all of them (thorough)
    vs = tables.versions()
    fam = [v for v in vs if er7ref.vkey(v) >= (2, 7)]
    rest = [v for v in vs if v not in fam and v != '2.5']
    first_only = vs if tier == 'thorough' else ['2.5', fam[seed % len(fam)], rest[seed % len(rest)]]
    specs += [{'kind': 'cold', 'part': p, 'ds': list(range(1 + p, D + 1, 14)), 'js': [], 'D': D, 'first_only': first_only,
               'versions_per_process': 6 if tier == 'quick' else 12} for p in range(14)]
    if tier == 'thorough':
        specs += [{'kind': 'cold', 'part': 14 + p, 'ds': [], 'js': list(range(1 + p, 3600, 16 * 9))} for p in range(16)]
    return specs


def measure_distinct_anchor_locations():
    """one unscheduled cold run on the tree under test: how many distinct anchor locations does the first user of a version
    pass through?  (the cold schedules enumerate a hand-over at the first hit of each of them)"""
    work = os.path.join(env.WORK, 'c19-measure-%d' % os.getpid())
    os.makedirs(work, exist_ok=True)
    try:
        sp, op = os.path.join(work, 'spec.json'), os.path.join(work, 'out.json')
        json.dump({'versions': ['2.5', '2.8.2', '2.1']}, open(sp, 'w'))
        subprocess.run([env.PYTHON, '-m', 'hl7mon.props.c19', '--cold', sp, op], env=env.child_env(), cwd=env.VERIF,
                       timeout=300, stdout=subprocess.PIPE, stderr=subprocess.PIPE)
        return max(r['distinct_anchor_locations'] for r in json.load(open(op)))
    except Exception:
        return 160
    finally:
        import shutil
        shutil.rmtree(work, ignore_errors=True)


def outcome(fn):
    try:
        return fn()
    except Exception as e:
        return 'EXC:%s' % type(e).__name__


def corpus():
    """[(label, thunk)] - results are JSON-comparable"""
    from hl7apy import core, parser
    from hl7apy.factories import datatype_factory
    calls = []
    vs = tables.versions()
    for i, v in enumerate(vs):
        for level in (1, 2):
            m9 = structref.msh9_for(v, 'ADT_A01') or 'ADT^A01'
            # (every call names its own locally defined segment)
            zname = 'Z%s%s' % ('AB'[level - 1], chr(65 + i))
            msg = 'MSH|^~\\&|A|B|C|D|20200101||%s|%d|P|%s\rEVN||20200101\rPID|1||%d||A^B\rPV1|1|I\rOBX|1|NM|X||%d.5\r%s|q' % (
                m9, i, v, i, i, zname)

            def pm(msg=msg, level=level):
                m = parser.parse_message(msg, validation_level=level)
                r = m.validate(return_errors=True)
                return [m.to_er7(), [str(e) for e in r.errors], [str(w) for w in r.warnings]]
            calls.append(('parse_message/%s/%d' % (v, level), pm))

            # a message declaring its own escape character (a different one per version and level) whose text holds the
            # escape characters of the other sets as plain data
            esc = '$@*%!'[(i + level) % 5]
            msg2 = 'MSH|^~%s&|A|B|C|D|20200101||%s|%d|P|%s\rEVN||20200101\rPID|1||%d||A\\B^C%sF%sD%sE%s!@*%%\rZ%s%s|x\\y%sT%s' % (
                esc, m9, i, v, i, esc, esc, esc, esc, 'EF'[level - 1], chr(65 + i), esc, esc)
            msg2 = msg2.replace('!@*%', ''.join(c for c in '!@*%$' if c != esc))

            def pe(msg2=msg2, level=level):
                m = parser.parse_message(msg2, validation_level=level)
                return [m.to_er7(), m.to_er7() == msg2]
            calls.append(('parse_message_own_escape/%s/%d' % (v, level), pe))

            if level == 2:
                # a builder that overrides the datatype of a named, still empty component (TOLERANT allows it), then reads a
                # fresh field of the same datatype: what one object was told is no business of any other object or thread
                def ov(v=v):
                    named = [(d, c) for d in tables.complex_datatypes(v) for c in tables.components(v, d)
                             if c.ok and c.card[1] != 0 and c.kind == 'sequence' and not tables.is_base(v, c.datatype)]
                    d, c = named[len(named) // 2]
                    others = [x for x in tables.complex_datatypes(v) if x != c.datatype]
                    comp = core.Component(c.name, version=v, validation_level=2)
                    comp.datatype = others[len(others) // 3]
                    fresh = core.Component(c.name, version=v, validation_level=2)
                    sub = tables.components(v, c.datatype)[0]
                    setattr(fresh, sub.name.lower(), 'q')
                    return [comp.datatype, fresh.datatype, fresh.to_er7(), [x.name for x in fresh.children.list]]
                calls.append(('override_component_datatype/%s/2' % v, ov))

            def ps(v=v, level=level, i=i):
                s = parser.parse_segment('PID|1||12%d^^^X&1.2&ISO^MR~456||DOE^JOHN|||M' % i, version=v,
                                         validation_level=level)
                return [s.to_er7(), [str(e) for e in s.validate(return_errors=True).errors]]
            calls.append(('parse_segment/%s/%d' % (v, level), ps))

            def bm(v=v, level=level, i=i, m9=m9):
                m = core.Message('ADT_A01', version=v, validation_level=level)
                m.msh.msh_7 = '20200101'
                m.msh.msh_9 = m9
                m.msh.msh_10 = str(i)
                pid = m.add_segment('PID')
                pid.pid_5 = 'A%d^B' % i
                pid.pid_3 = 'id%d' % i
                g = [c.name for c in tables.messages(v)['ADT_A01'].children if c.kind == 'GRP']
                if g:
                    m.add_group(g[0])
                zn = 'Z%s%s' % ('CD'[level - 1], chr(65 + i))
                setattr(m.add_segment(zn), '%s_2' % zn.lower(), 'z%d' % i)
                return [m.to_er7(), [str(e) for e in m.validate(return_errors=True).errors]]
            calls.append(('build_message/%s/%d' % (v, level), bm))
            def zf(v=v, level=level, i=i):
                # the one locally defined segment every site uses (ZIN), each call with field numbers of its own - by
                # assignment and by parsing; where the version has it, the open-ended end of QPD too
                n = 2 + 2 * i + (level - 1)
                s = core.Segment('ZIN', version=v, validation_level=level)
                setattr(s, 'zin_%d' % n, 'v%d' % n)
                s.add_field('ZIN_%d' % (n + 30)).value = 'w%d' % n
                s2 = parser.parse_segment('ZIN|' + '|'.join('f%d.%d' % (n, k) for k in range(1, n + 1)), version=v,
                                          validation_level=level)
                out = [s.to_er7(), s2.to_er7(), [c.name for c in s.children.list], [c.name for c in s2.children.list]]
                if 'QPD' in tables.segments(v):
                    q = parser.parse_segment('QPD|q^n|tag|' + '|'.join('p%d.%d' % (n, k) for k in range(3, n + 3)),
                                             version=v, validation_level=level)
                    setattr(q, 'qpd_%d' % (n + 9), 'x%d' % n)
                    out += [q.to_er7(), [c.name for c in q.children.list]]
                return out
            calls.append(('shared_z_segment_own_fields/%s/%d' % (v, level), zf))
            for dt, val in (('DT', '20200101'), ('DT', 'bad'), ('TM', '1200+0100'), ('NM', '12.5'), ('SI', '7'),
                            ('ST', 'a|b\\H\\'), ('DTM', '202001011200'), ('TN', '5551234'), ('FT', 'x~y'), ('NM', 'zz'),
                            ('ST', 'c\\d$e@f!g')):
                def df(dt=dt, val=val, v=v, level=level):
                    o = datatype_factory(dt, val, v, level)
                    return [type(o).__name__, o.to_er7()]
                calls.append(('datatype_factory/%s/%d/%s/%s' % (v, level, dt, val), df))
    return calls


def run_stress(spec, rec):
    rng = gen.rng_for(spec['seed'], 'c19-stress', spec['part'])
    calls = corpus()
    ref = [outcome(f) for _, f in calls]
    T = spec['threads']
    old = sys.getswitchinterval()
    sys.setswitchinterval(1e-6)
    try:
        for rnd in range(spec['rounds']):
            order = list(range(len(calls)))
            rng.shuffle(order)
            out = [None] * len(calls)
            bar = threading.Barrier(T)

            def worker(idx):
                bar.wait()
                for i in idx:
                    out[i] = outcome(calls[i][1])
            ts = [threading.Thread(target=worker, args=(order[k::T],)) for k in range(T)]
            [t.start() for t in ts]
            [t.join(600) for t in ts]
            for i, (a, b) in enumerate(zip(out, ref)):
                rec.evaluation(('stress', T, rnd, spec['seed'], calls[i][0]))
                rec.count('calls_compared_stress')
                if a != b:
                    rec.violation('result-differs-under-threads:stress', {'kind': 'stress', 'label': calls[i][0],
                                                                         'threads': T},
                                  {'sequential': str(b)[:200], 'concurrent': str(a)[:200]})
    finally:
        sys.setswitchinterval(old)
    rec.seen('thread_counts', str(T))
    rec.sample({'kind': 'stress', 'threads': T, 'calls': len(calls), 'rounds': spec['rounds']})


def run_inject(spec, rec):
    rng = gen.rng_for(spec['seed'], 'c19-inject', spec['part'])
    calls = corpus()
    ref = [outcome(f) for _, f in calls]
    T = (4, 8, 3)[spec['part'] % 3]
    for rnd in range(spec['rounds']):
        sub = rng.sample(range(len(calls)), 60)
        inj = sched.YieldInjector(rng.random())
        out = {}
        bar = threading.Barrier(T)

        def worker(idx):
            bar.wait()
            for i in idx:
                out[i] = outcome(calls[i][1])
        sched.start(inj.on_line)
        try:
            ts = [threading.Thread(target=worker, args=(sub[k::T],)) for k in range(T)]
            [t.start() for t in ts]
            [t.join(600) for t in ts]
        finally:
            sched.stop()
        rec.count('line_events_observed', inj.events)
        rec.count('yields_injected', inj.yields)
        rec.count('yields_injected_in_anchor_functions', inj.anchor_yields)
        for i in sub:
            rec.evaluation(('inject', rnd, spec['part'], spec['seed'], calls[i][0]))
            rec.count('calls_compared_inject')
            if out.get(i) != ref[i]:
                rec.violation('result-differs-under-threads:yield-injection', {'kind': 'inject', 'label': calls[i][0]},
                              {'sequential': str(ref[i])[:200], 'concurrent': str(out.get(i))[:200]})
    rec.sample({'kind': 'inject', 'threads': T})


def run_baton(spec, rec):
    rng = gen.rng_for(spec['seed'], 'c19-baton', spec['part'])
    calls = corpus()
    ref = {lab: outcome(f) for lab, f in calls}
    by = dict(calls)
    labels = [l for l, _ in calls]
    traces = set()
    vs = tables.versions()
    new_family = [v for v in vs if er7ref.vkey(v) >= (2, 7)]
    old_family = [v for v in vs if v not in new_family]
    # versions alternate between the two families of base datatype modules (hl7apy/v2_7/base_datatypes.py serves 2.7+)
    alternating = [x for pair in zip(new_family * 3, old_family) for x in pair]
    for p in range(spec['pairs']):
        a, b = rng.sample(labels, 2)
        if p % 3 == 0:
            # a call with its own escape character against any call of the same family of versions: both go through the
            # same datatype classes with different delimiters
            va = alternating[(spec['part'] * spec['pairs'] + p // 3 + spec['seed']) % len(alternating)]
            a = 'parse_message_own_escape/%s/%d' % (va, 1 + (p // 3 + spec['part']) % 2)
            fam = new_family if va in new_family else old_family
            b = rng.choice([l for l in labels if l.split('/')[1] in fam and l != a])
            rec.count('pairs_same_family_other_delimiters')
        elif p % 3 == 1:
            # same version, so that both threads touch the same per-version shared maps
            va = a.split('/')[1]
            same = [l for l in labels if l.split('/')[1] == va and l != a]
            b = rng.choice(same)
        # count events with an empty plan (the 'any' key keeps the LINE events of non-anchor code on)
        out, bt, hung = sched.run_pair(by[a], by[b], {0: {'any': ()}})
        n0, n1, a0, a1 = bt.count[0], bt.count[1], bt.acount[0], bt.acount[1]
        rec.count('anchor_events_seen', a0 + a1)
        cap = spec.get('cap', 160)

        def by_location(seq):
            occ = collections.OrderedDict()
            for k, loc in enumerate(seq, 1):
                occ.setdefault(loc, []).append(k)
            return occ
        occ0, occ1 = by_location(bt.aseq[0]), by_location(bt.aseq[1])
        rec.count('distinct_anchor_locations_in_pairs', len(occ0) + len(occ1))
        # thread 0 hands over at the first and at the last visit of every distinct anchor location (a memo is torn at its
        # first write, a stale read-back shows at the last visit), plus a seeded sample of the visits in between
        ks0 = set(o[0] for o in occ0.values()) | set(o[-1] for o in occ0.values())
        rest = [k for k in range(1, a0 + 1) if k not in ks0]
        ks0 = sorted(ks0 | set(rng.sample(rest, min(len(rest), cap // 4))))
        ks1 = set(o[-1] for o in occ1.values())
        if len(ks1) > cap // 3:
            ks1 = set(rng.sample(sorted(ks1), cap // 3))
        rest = [k for k in range(1, a1 + 1) if k not in ks1]
        ks1 = sorted(ks1 | set(rng.sample(rest, min(len(rest), cap // 8))))
        plans = [{0: {'anchor': {k}}} for k in ks0]
        plans += [{1: {'anchor': {k}}, 0: {'any': {1}}} for k in ks1]
        # two switches: 0 stops at an anchor location, 1 runs into the same function and stops there, 0 finishes, 1 finishes
        shared = [loc for loc in occ0 if any(l1[:2] == loc[:2] for l1 in occ1)]
        for loc in rng.sample(shared, min(len(shared), cap // 6)):
            k = rng.choice(occ0[loc])
            same_fn = [l1 for l1 in occ1 if l1[:2] == loc[:2]]
            j = rng.choice(occ1[rng.choice(same_fn)])
            plans.append({0: {'anchor': {k}}, 1: {'anchor': {j}}})
            rec.count('two_switch_schedules')
        plans += [{0: {'any': {rng.randrange(1, max(2, n0))}}, 1: {'any': {rng.randrange(1, max(2, n1))}}}
                  for _ in range(8)]
        rec.count('single_switch_schedules_first_and_last_visit_of_every_location')
        for pl in plans:
            out, bt, hung = sched.run_pair(by[a], by[b], pl)
            switched = len(bt.trace) > 0
            tr = tuple(bt.trace)
            traces.add((a, b, tr))
            rec.evaluation(('baton', a, b, tr), nontrivial=switched)
            rec.count('baton_schedules')
            if hung:
                rec.inconclusive_reason('baton schedule hung for %s / %s' % (a, b))
                return
            for lab, o in ((a, out[0]), (b, out[1])):
                rec.count('calls_compared_baton')
                if o != ref[lab]:
                    rec.violation('result-differs-under-threads:forced-switch', {'kind': 'baton', 'a': a, 'b': b,
                                                                                 'plan': _plan_json(pl)},
                                  {'label': lab, 'sequential': str(ref[lab])[:200], 'concurrent': str(o)[:200],
                                   'trace': [list(t) for t in tr][:4]})
        for f, ln in list(bt.anchor_lines)[:50]:
            rec.seen('anchor_lines_hit', '%s:%d' % (f, ln))
    rec.count('interleavings_distinct', len(traces))
    rec.sample({'kind': 'baton', 'pairs': spec['pairs'], 'distinct_traces': len(traces)})


def run_byfunc(spec, rec):
    """systematic part of the warm schedules: for every function that touches process-wide state (anchor function) two calls
    of the corpus that both pass through it - preferably the same kind of call with another version / level, so that they
    carry different keys through it - are interleaved with a hand-over at the first and at the last visit of each of its
    lines, in both roles"""
    rng = gen.rng_for(spec['seed'], 'c19-byfunc', spec['part'])
    calls = corpus()
    by = dict(calls)
    ref = {lab: outcome(f) for lab, f in calls}
    # footprint of every call: the anchor functions it visits (one monitored solo run each)
    foot = {}
    for lab, f in calls:
        out, bt, hung = sched.run_pair(f, lambda: None, {})
        foot[lab] = set((a, b) for a, b, _ in bt.aseq[0])
    funcs = sorted(set(x for v in foot.values() for x in v))
    rec.count('anchor_functions_found', len(funcs) if spec['part'] == 0 else 0)
    mine = [f for i, f in enumerate(funcs) if i % spec['parts'] == spec['part']]
    traces = set()
    for F in mine:
        cands = sorted(l for l in foot if F in foot[l])
        if len(cands) < 2:
            rec.count('anchor_functions_visited_by_one_call_only')
            continue
        pairs = []
        # one pair per kind of call that visits the function (a parse and a build use what it returns differently), the
        # second call being of the same kind with another version / level where there is one
        kinds = sorted(set(l.split('/')[0] for l in cands))
        rng.shuffle(kinds)
        for kind in kinds[:spec['kinds_per_function']]:
            of_kind = [l for l in cands if l.split('/')[0] == kind]
            for _ in range(spec['pairs_per_function']):
                a = of_kind[rng.randrange(len(of_kind))]
                same_kind = [l for l in of_kind if l.split('/')[1:3] != a.split('/')[1:3]]
                pool = same_kind or [l for l in cands if l != a]
                pairs.append((a, pool[rng.randrange(len(pool))]))
        for a, b in pairs:
            for x, y in ((a, b), (b, a)):
                out, bt, hung = sched.run_pair(by[x], by[y], {})
                occ = collections.OrderedDict()
                for k, loc in enumerate(bt.aseq[0], 1):
                    if (loc[0], loc[1]) == F:
                        occ.setdefault(loc[2], []).append(k)
                ks = sorted(set(o[0] for o in occ.values()) | set(o[-1] for o in occ.values()))
                for k in ks[:spec.get('max_plans', 24)]:
                    pl = {0: {'anchor': {k}}}
                    out, bt2, hung = sched.run_pair(by[x], by[y], pl)
                    tr = tuple(bt2.trace)
                    traces.add((x, y, tr))
                    rec.evaluation(('byfunc', F, x, y, tr), nontrivial=len(tr) > 0)
                    rec.count('function_targeted_schedules')
                    if hung:
                        rec.inconclusive_reason('function-targeted schedule hung for %s / %s' % (x, y))
                        return
                    for lab, o in ((x, out[0]), (y, out[1])):
                        rec.count('calls_compared_baton')
                        if o != ref[lab]:
                            rec.violation('result-differs-under-threads:forced-switch', {'kind': 'baton', 'a': x, 'b': y,
                                                                                         'plan': _plan_json(pl),
                                                                                         'function': list(F)},
                                          {'label': lab, 'sequential': str(ref[lab])[:200], 'concurrent': str(o)[:200],
                                           'trace': [list(t) for t in tr][:4]})
        rec.count('anchor_functions_targeted')
        rec.seen('anchor_functions', '%s:%s' % F)
    rec.count('interleavings_distinct', len(traces))
    rec.sample({'kind': 'byfunc', 'functions': ['%s:%s' % f for f in mine[:6]]})


def _plan_json(pl):
    return {str(k): {kk: sorted(vv) for kk, vv in v.items()} for k, v in pl.items()}


# ---------------------------------------------------------------- cold-start schedules
def cold_calls(v, level=2):
    """two calls on the same version for a cold process: A is the first user of the version"""
    from hl7apy import parser, core
    from hl7apy.factories import datatype_factory

    def A():
        s = parser.parse_segment('PID|1||123^^^X&1.2&ISO^MR~456||DOE^JOHN|||M', version=v, validation_level=level)
        from .. import treeinv
        leaf = core.SubComponent(datatype='ST', version=v)
        leaf.value = 'k|l~m^n&o#p\\q'     # text holding every delimiter: encoded with the version's default set
        # the same date, time and number that call B converts: two messages of two threads carrying the same timestamp
        same = [[type(o).__name__, o.to_er7()] for o in (datatype_factory(dt, val, v, 1) for dt, val in
                                                         (('DT', '20200101'), ('TM', '1200'), ('NM', '12.5')))]
        return [s.to_er7(), [str(e) for e in s.validate(return_errors=True).errors],
                [[e.__dict__.get('name'), e.__dict__.get('_datatype')] for e in treeinv.walk(s)], leaf.to_er7(), same]

    def B():
        out = []
        for dt, val in (('DT', '20200101'), ('NM', '12.5'), ('ST', 'a|b'), ('TM', '1200'), ('SI', '3')):
            o = datatype_factory(dt, val, v, 1)
            out.append([type(o).__name__, o.to_er7()])
        s = parser.parse_segment('PV1|1|I|W^1^2', version=v, validation_level=level)
        out.append(s.to_er7())
        leaf = core.SubComponent(datatype='ST', version=v)
        leaf.value = 'a|b~c^d&e#f\\g'
        out.append(leaf.to_er7())
        return out
    return A, B


def aftermath(v):
    """run sequentially in a process AFTER its concurrent calls: 300 further distinct dates, times, timestamps and numbers,
    and a leaf holding every delimiter under five delimiter sets.  Each value is valid, so it is accepted under STRICT and
    encodes to itself; the list of those that are not is what the call returns (empty in a process that ran nothing
    concurrently) - damage that concurrent calls left behind in process-wide state shows here, however late it surfaces."""
    from hl7apy import core
    from hl7apy.factories import datatype_factory
    bad = []
    vals = []
    for k in range(300):
        d = '%04d%02d%02d' % (1900 + k % 150, 1 + k % 12, 1 + k % 28)
        t = '%02d%02d%02d' % (k % 24, (7 * k) % 60, (11 * k) % 60)
        vals += [('DT', d), ('TM', t), ('DTM', d + t), ('TM', t + '.%d' % (k + 1)), ('NM', '%d.%d' % (k, k + 1)),
                 ('SI', str(k))]
    for dt, val in vals:
        try:
            o = datatype_factory(dt, val, v, 1)
            if o.to_er7() != val:
                bad.append([dt, val, o.to_er7()])
        except Exception as e:
            bad.append([dt, val, type(e).__name__])
    for n, esc in enumerate('\\$@%!'):
        ec = {'FIELD': '|', 'COMPONENT': '^', 'SUBCOMPONENT': '&', 'REPETITION': '~', 'ESCAPE': esc, 'SEGMENT': '\r',
              'GROUP': '\r'}
        leaf = core.SubComponent(datatype='ST', version=v)
        leaf.value = 'a|b~c^d&e' + esc + 'f'
        want = 'a{0}F{0}b{0}R{0}c{0}S{0}d{0}T{0}e{0}E{0}f'.format(esc)
        if leaf.to_er7(encoding_chars=ec) != want:
            bad.append(['ST', esc, leaf.to_er7(encoding_chars=ec)])
    return [len(vals) + 5, bad[:5]]


def override_call(v):
    """a builder overriding the datatype of a named, still empty component that call A uses (CX_4 where the version has it):
    something one object is told, no business of any other call"""
    from hl7apy import core

    def C():
        names = [c.name for c in tables.components(v, 'CX')] if 'CX' in tables.complex_datatypes(v) else []
        if 'CX_4' not in names:
            return None
        comp = core.Component('CX_4', version=v, validation_level=2)
        comp.datatype = 'CE' if 'CE' in tables.complex_datatypes(v) else 'CWE'
        return comp.datatype
    return C


def core_only_calls(v):
    """two calls that use hl7apy.core only (text assigned to freshly built segments): in a process that has not imported
    hl7apy.parser yet, the first of them triggers the library's lazy import of it"""
    from hl7apy import core

    def A0():
        s = core.Segment('PID', version=v, validation_level=2)
        s.pid_5 = 'A^B'
        s.pid_3 = '1^^^X&1.2&ISO'
        leaf = core.SubComponent(datatype='ST', version=v)
        leaf.value = 'r|s~t^u&v#w\\x'     # text holding every delimiter
        return [s.to_er7(), leaf.to_er7()]

    def B0():
        s = core.Segment('PV1', version=v, validation_level=2)
        s.pv1_3 = 'W^1^2'
        s.pv1_2 = 'I'
        leaf = core.SubComponent(datatype='ST', version=v)
        leaf.value = 'a|b~c^d&e#f\\g'
        return [s.to_er7(), leaf.to_er7()]
    return A0, B0


def cold_main(argv):
    """entry of a fresh process: for every version, one two-thread schedule whose first thread is the first user of that
    version and is pre-empted at its j-th anchor event"""
    spec = json.load(open(argv[0]))
    env.import_hl7apy()
    res = []
    first = None
    if 'hl7apy.parser' not in sys.modules:
        # before anything else imports the parser: two core-only calls under the same plan
        A0, B0 = core_only_calls(spec['versions'][0])
        pl0 = {0: {'anchor_first': {spec['d']}}} if spec.get('d') else ({0: {'anchor': {spec['j']}}} if spec.get('j') else {})
        out0, bt0, hung0 = sched.run_pair(A0, B0, pl0)
        first = {'version': spec['versions'][0], 'out': out0, 'hung': hung0, 'trace': [list(t) for t in bt0.trace],
                 'blocked': bt0.blocked, 'distinct_anchor_locations': len(bt0.first_seen[0])}
    for v in ([] if spec.get('first_only') else spec['versions']):
        A, B = cold_calls(v)
        loaded = any(m.startswith('hl7apy.v%s' % v.replace('.', '_')) and m.count('.') == 1 for m in sys.modules)
        pl = {}
        if spec.get('d'):
            pl = {0: {'anchor_first': {spec['d']}}}
        elif spec.get('j'):
            pl = {0: {'anchor': {spec['j']}}}
        out, bt, hung = sched.run_pair(A, B, pl)
        # then, in the same process: the override in one thread, call A in another
        out2, bt2, hung2 = sched.run_pair(override_call(v), A, {})
        res.append({'version': v, 'out': out, 'after_override': out2[1], 'hung2': hung2,
                    'trace': [list(t) for t in bt.trace], 'anchor_events': bt.acount,
                    'distinct_anchor_locations': len(bt.first_seen[0]),
                    'blocked': bt.blocked, 'hung': hung, 'was_loaded': loaded})
    after = None if spec.get('first_only') else outcome(lambda: aftermath(spec['versions'][-1]))
    json.dump({'schedules': res, 'first_text_assignments': first, 'aftermath': after}, open(argv[1], 'w'))
    return 0


def judge_first(f0, rec, case, traces):
    if not f0 or f0['hung']:
        if f0:
            rec.inconclusive_reason('cold first-assignment schedule hung (version %s)' % f0['version'])
        return
    A0, B0 = core_only_calls(f0['version'])
    want0 = [outcome(A0), outcome(B0)]
    rec.count('cold_first_text_assignment_pairs')
    tr = tuple(tuple(t) for t in f0['trace'])
    traces.add(('first', f0['version'], tr))
    rec.evaluation(('cold-first', f0['version'], tr), nontrivial=bool(tr))
    if f0['trace']:
        rec.count('cold_first_text_assignment_pairs_switched')
        rec.seen('cold_first_switch_functions', '%s:%s' % (f0['trace'][0][1], f0['trace'][0][2]))
    if f0['out'] != want0:
        rec.violation('result-differs-under-threads:cold-start-before-the-parser-is-imported', case,
                      {'sequential': str(want0)[:250], 'concurrent': str(f0['out'])[:250], 'trace': f0['trace'][:3]})


def run_cold(spec, rec):
    vs = tables.versions()
    ref = {}
    for v in vs:
        A, B = cold_calls(v)
        ref[v] = [outcome(A), outcome(B)]
    work = os.path.join(env.WORK, 'c19-cold-%d-%d' % (os.getpid(), spec['part']))
    os.makedirs(work, exist_ok=True)
    traces = set()
    try:
        for kind_, j in [('d', d) for d in spec.get('ds', [])] + [('j', j) for j in spec.get('js', [])]:
            sp = os.path.join(work, 'spec.json')
            op = os.path.join(work, 'out.json')
            # rotate the version order so that every version is, in some process, the very first library loaded
            order = (vs[j % len(vs):] + vs[:j % len(vs)])[:spec.get('versions_per_process', len(vs))]
            json.dump({'versions': order, kind_: j}, open(sp, 'w'))
            if os.path.exists(op):
                os.remove(op)
            try:
                p = subprocess.run([env.PYTHON, '-m', 'hl7mon.props.c19', '--cold', sp, op], env=env.child_env(),
                                   cwd=env.VERIF, timeout=300, stdout=subprocess.PIPE, stderr=subprocess.PIPE)
            except subprocess.TimeoutExpired:
                rec.inconclusive_reason('cold schedule process timed out (j=%d)' % j)
                continue
            if p.returncode != 0 or not os.path.exists(op):
                rec.inconclusive_reason('cold schedule process failed (j=%d): %s' % (j, p.stderr.decode()[-300:]))
                continue
            payload = json.load(open(op))
            f0 = payload.get('first_text_assignments')
            judge_first(f0, rec, {'kind': 'cold', 'version': order[0], kind_: j, 'order': order}, traces)
            if payload.get('aftermath') is not None:
                # the sequential battery that ran in that process after its schedules, against the same battery run here
                want_after = json.loads(json.dumps(outcome(lambda: aftermath(order[-1]))))
                rec.count('aftermath_batteries_compared')
                rec.evaluation(('cold-aftermath', kind_, j))
                if payload['aftermath'] != want_after:
                    rec.violation('sequential-calls-after-concurrent-ones-differ:cold-start',
                                  {'kind': 'cold', 'version': order[-1], kind_: j, 'order': order},
                                  {'sequential': str(want_after)[:250], 'after_concurrent_calls': str(payload['aftermath'])[:250]})
            for r in payload['schedules']:
                v = r['version']
                switched = len(r['trace']) > 0
                tr = tuple(tuple(t) for t in r['trace'])
                traces.add((v, tr))
                rec.evaluation(('cold', v, kind_, j, tr), nontrivial=switched)
                rec.count('cold_schedules')
                rec.extra['max_distinct_anchor_locations'] = max(rec.extra.get('max_distinct_anchor_locations', 0),
                                                                 r.get('distinct_anchor_locations', 0))
                if not r['was_loaded']:
                    rec.count('cold_schedules_on_unloaded_library')
                if switched:
                    rec.count('cold_switches_performed')
                rec.count('cold_blocked_switches', r['blocked'])
                if r['hung']:
                    rec.inconclusive_reason('cold schedule hung (version %s, j=%d)' % (v, j))
                    continue
                if r['out'] != ref[v]:
                    rec.violation('result-differs-under-threads:cold-start', {'kind': 'cold', 'version': v, kind_: j,
                                                                             'order': order},
                                  {'sequential': str(ref[v])[:250], 'concurrent': str(r['out'])[:250],
                                   'trace': r['trace'][:3]})
                if not r.get('hung2'):
                    rec.count('calls_compared_after_an_override_in_another_thread')
                    if r.get('after_override') != ref[v][0]:
                        rec.violation('result-differs-under-threads:after-datatype-override-in-another-thread',
                                      {'kind': 'cold', 'version': v, kind_: j, 'order': order},
                                      {'sequential': str(ref[v][0])[:250], 'concurrent': str(r.get('after_override'))[:250]})
                for t in r['trace'][:2]:
                    rec.seen('cold_switch_points', '%s:%s' % (t[1], t[2]))
        # the first text assignment of a process, pre-empted at the first hit of every distinct location it passes
        for v in spec.get('first_only', []):
            d = spec.get('first_d') or 1 + spec['part']
            while True:
                sp = os.path.join(work, 'spec.json')
                op = os.path.join(work, 'out.json')
                json.dump({'versions': [v], 'd': d, 'first_only': True}, open(sp, 'w'))
                if os.path.exists(op):
                    os.remove(op)
                try:
                    p = subprocess.run([env.PYTHON, '-m', 'hl7mon.props.c19', '--cold', sp, op], env=env.child_env(),
                                       cwd=env.VERIF, timeout=300, stdout=subprocess.PIPE, stderr=subprocess.PIPE)
                except subprocess.TimeoutExpired:
                    rec.inconclusive_reason('cold first-assignment process timed out (d=%d)' % d)
                    break
                if p.returncode != 0 or not os.path.exists(op):
                    rec.inconclusive_reason('cold first-assignment process failed (d=%d): %s' % (d, p.stderr.decode()[-300:]))
                    break
                f0 = json.load(open(op)).get('first_text_assignments')
                if not f0:
                    rec.inconclusive_reason('the parser was imported before the first text assignment')
                    break
                judge_first(f0, rec, {'kind': 'cold-first', 'version': v, 'd': d}, traces)
                rec.count('cold_first_only_processes')
                rec.extra['max_distinct_anchor_locations_first_assignment'] = max(
                    rec.extra.get('max_distinct_anchor_locations_first_assignment', 0), f0.get('distinct_anchor_locations', 0))
                if d > f0.get('distinct_anchor_locations', 0) or spec.get('first_d'):
                    break       # past the last location this call passes through
                d += 14
            rec.seen('cold_first_only_versions', v)
    finally:
        import shutil
        shutil.rmtree(work, ignore_errors=True)
    rec.count('interleavings_distinct', len(traces))
    rec.extra['distinct_anchor_locations_planned'] = spec.get('D')
    rec.sample({'kind': 'cold', 'ds': spec.get('ds', [])[:4], 'js': spec['js'][:4], 'versions_per_process': len(vs),
                'distinct_anchor_locations_enumerated': spec.get('D')})


def run_shard(spec, rec):
    {'stress': run_stress, 'inject': run_inject, 'baton': run_baton, 'cold': run_cold,
     'byfunc': run_byfunc}[spec['kind']](spec, rec)


def replay(case, rec):
    if case['kind'] == 'baton':
        by = dict(corpus())
        ref = {l: outcome(f) for l, f in by.items() if l in (case['a'], case['b'])}
        pl = {int(k): {kk: set(vv) for kk, vv in v.items()} for k, v in case['plan'].items()}
        out, bt, hung = sched.run_pair(by[case['a']], by[case['b']], pl)
        rec.evaluation(('replay',))
        for lab, o in ((case['a'], out[0]), (case['b'], out[1])):
            if o != ref[lab]:
                rec.violation('result-differs-under-threads:forced-switch', case, {'label': lab, 'concurrent': str(o)[:200]})
    elif case['kind'] == 'cold-first':
        run_cold({'part': 0, 'js': [], 'ds': [], 'first_only': [case['version']], 'first_d': case['d']}, rec)
    elif case['kind'] == 'cold':
        run_cold({'part': 0, 'js': [case['j']] if 'j' in case else [], 'ds': [case['d']] if 'd' in case else []}, rec)
    else:
        run_stress({'seed': 0, 'part': 0, 'threads': case.get('threads', 8), 'rounds': 3}, rec)


def floors(tier, m):
    out = []
    c = m['counters']
    if c.get('aftermath_batteries_compared', 0) < 50 and not m['violation_counts']:
        out.append('aftermath batteries compared: %s' % c.get('aftermath_batteries_compared'))
    if c.get('calls_compared_stress', 0) < 2000:
        out.append('fewer than 2000 calls compared under stress')
    if c.get('baton_schedules', 0) < 500:
        out.append('fewer than 500 baton schedules (%s)' % c.get('baton_schedules'))
    if c.get('yields_injected_in_anchor_functions', 0) < 100:
        out.append('yield injection never reached the anchor functions')
    if c.get('cold_switches_performed', 0) < 100 or c.get('cold_schedules_on_unloaded_library', 0) < 100:
        out.append('cold-start schedules: %s switches, %s on unloaded libraries' % (
            c.get('cold_switches_performed'), c.get('cold_schedules_on_unloaded_library')))
    if c.get('cold_first_only_processes', 0) < 300 or c.get('cold_first_text_assignment_pairs_switched', 0) < 300:
        out.append('first text assignment of a process: %s schedules, %s switched' % (
            c.get('cold_first_only_processes'), c.get('cold_first_text_assignment_pairs_switched')))
    if not m['seen'].get('anchor_lines_hit'):
        out.append('no anchor line reached')
    return out


if __name__ == '__main__':
    if len(sys.argv) > 1 and sys.argv[1] == '--cold':
        sys.exit(cold_main(sys.argv[2:]))
