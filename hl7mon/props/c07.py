"""C07 - a message's encoding characters govern its entire encoding.

Monitor: a message with a known shape (2 repetitions x components x 2 sub-components, alphanumeric leaves) is built or
parsed under a seeded delimiter set; the reference tokenizer run with that set must reproduce the shape (any transposed
separator shows), every separator in the output must belong to the set, MSH-1/2 must spell it, encoding_chars must read
back equal on the message and on every descendant, and re-parsing must recover the set and the same encoding.
"""
import string

from .. import tables, er7ref, gen, structref, treeinv

ID = 'C07'
LEVEL = 'exploration'
RULE = ('seeded random choices of 5 (v>=2.7: 5 or 6) distinct punctuation characters (minus "." and "_", which the mandatory '
        'header content contains) x 12 versions x {built through Message(...), parsed from text}; invalid sets (each key '
        'missing, each pair duplicated, duplicated truncation) must raise InvalidEncodingChars; non-trivial = every separator of '
        'the set occurs in the encoding; distinct = (version, delimiter tuple, path)')
ASSUMPTIONS = [
    'delimiter pool = string.punctuation minus "." and "_"; CR is the segment terminator throughout',
    'for versions before 2.7 a supplied TRUNCATION key is outside the statement and not generated',
]


def plan(tier, seed):
    n = 110 if tier == 'quick' else 2500
    specs = [{'kind': 'sets', 'version': v, 'n': n} for v in tables.versions()]
    specs.append({'kind': 'invalid'})
    return specs


def shape_field(v):
    """(segment, field row, complex component row, [leaf sub rows]) usable to build 2 reps x comps x 2 subs"""
    for seg in ('PID', 'NK1', 'IN1', 'GT1', 'OBX', 'PV1'):
        for r in gen.usable_rows(v, seg):
            if r.kind != 'sequence' or r.card[1] != -1:
                continue
            comps = tables.components(v, r.datatype)
            if not comps or comps[0].kind != 'leaf' or comps[0].card[1] == 0 or comps[0].datatype not in ('ST', 'ID', 'IS'):
                continue
            for c in comps[1:]:
                if c.ok and c.card[1] != 0 and c.kind == 'sequence' and not tables.is_base(v, c.datatype):
                    subs = [s for s in tables.components(v, c.datatype) if s.ok and s.kind == 'leaf' and
                            s.card[1] != 0 and s.datatype in ('ST', 'ID', 'IS')]
                    if len(subs) >= 2 and subs[0].num == 1 and subs[1].num == 2:
                        return seg, r, c, subs[:2]
    # versions without nested datatypes (2.1): 2 repetitions x 2 components, no sub-components
    for seg in ('PID', 'NK1', 'IN1', 'GT1', 'OBX', 'PV1', 'OBR', 'ORC'):
        for r in gen.usable_rows(v, seg):
            if r.kind != 'sequence' or r.card[1] != -1:
                continue
            comps = [c for c in tables.components(v, r.datatype) if c.ok and c.card[1] != 0 and c.kind == 'leaf' and
                     c.datatype in ('ST', 'ID', 'IS')]
            if len(comps) >= 2 and comps[0].num == 1:
                return seg, r, comps[1], None
    return None


def rep_text(ec, crow, i, subs=True):
    C, S = ec['COMPONENT'], ec['SUBCOMPONENT']
    return 'a%d' % i + C * (crow.num - 1) + 'x%d' % i + (S + 'y%d' % i if subs else '')


def field_text(ec, crow, subs=True):
    return rep_text(ec, crow, 1, subs) + ec['REPETITION'] + rep_text(ec, crow, 2, subs)


def expected_leaves(row, crow, subs=True):
    out = []
    for i in (1, 2):
        out.append(((row.num, i, 1, 1), 'a%d' % i))
        out.append(((row.num, i, crow.num, 1), 'x%d' % i))
        if subs:
            out.append(((row.num, i, crow.num, 2), 'y%d' % i))
    return out


def ec_tuple(ec):
    return tuple(ec.get(k) for k in ('FIELD', 'COMPONENT', 'SUBCOMPONENT', 'REPETITION', 'ESCAPE', 'TRUNCATION'))


def judge_encoding(er, ec, v, seg, row, crow, rec, case, path, subs=True):
    chars = [c for c in ec_tuple(ec) if c]
    want_head = 'MSH' + ec['FIELD'] + gen.msh2(ec) + ec['FIELD']
    if not er.startswith(want_head):
        rec.violation('msh-1-2-do-not-spell-the-set:%s' % path, case, {'head': er[:12], 'want': want_head})
        return False
    has_trunc = 'TRUNCATION' in ec
    msh2 = er[4:].split(ec['FIELD'], 1)[0]
    if len(msh2) != (5 if has_trunc else 4):
        rec.violation('truncation-emitted-iff-supplied:%s' % path, case, {'msh2': msh2})
        return False
    foreign = set(er) - set(string.ascii_letters + string.digits + '_.') - {'\r'} - set(chars)
    if foreign:
        rec.violation('separator-outside-the-set:%s' % path, case, {'foreign': sorted(foreign), 'er7': er[-80:]})
        return False
    tec, segs = er7ref.tokenize_message(er, ec)
    line = [f for n, f in segs if n == seg]
    if len(line) < 1 or er7ref.leaves(line[0]) != expected_leaves(row, crow, subs):
        rec.violation('shape-not-reproduced:%s' % path, case, {'segment': er.split('\r')[-1][:120],
                                                              'leaves': str(er7ref.leaves(line[0]) if line else None)[:200]})
        return False
    return True


def check_set(core, parser, v, ec, rec):
    from hl7apy.consts import MLLP_ENCODING_CHARS as MC
    sf = shape_field(v)
    seg, row, crow, subs = sf
    subs = subs is not None
    rec.seen('shapes', '2 repetitions x %d components x %s' % (crow.num, '2 sub-components' if subs else 'no sub-components'))
    exp = gen.full_ec(ec)
    case = {'kind': 'set', 'version': v, 'ec': ec}
    nontrivial = True
    # ---- builder path
    rec.evaluation((v, ec_tuple(ec), 'build'))
    try:
        m = core.Message('ADT_A01', version=v, encoding_chars=dict(ec))
        m.msh.msh_7 = '20200101120000'
        m.msh.msh_9 = (structref.msh9_for(v, 'ADT_A01') or 'ADT^A01').replace('^', ec['COMPONENT'])
        m.msh.msh_10 = 'id1'
        # repeated header fields (MSH-18 character sets, MSH-21 profile identifiers, ...): only MSH-2 holds the repetition
        # character as data - every other MSH field that the version lets repeat is split on it like any field
        msh_rep = [r for r in tables.segments(v)['MSH'] if r.ok and r.num > 2 and r.card[1] != 1]
        for r in msh_rep[-3:]:
            setattr(m.msh, r.name.lower(), 'H%da' % r.num)
            m.msh.add_field(r.name).value = 'H%db' % r.num
            m.msh.add_field(r.name).value = 'H%dc' % r.num
            rec.seen('msh_repeated_fields', 'MSH-%d' % r.num)
        s = m.add_segment(seg) if seg in [c.name for c in tables.messages(v)['ADT_A01'].children] else None
        if s is None:
            s = core.Segment(seg, version=v)
            m.add(s)
        # assignment by name parses ONE field (a repetition separator in it would be data): two repetitions = two calls
        setattr(s, row.name.lower(), rep_text(ec, crow, 1, subs))
        s.add_field(row.name).value = rep_text(ec, crow, 2, subs)
        # a leaf holding the set's own delimiters (assigned through a datatype object, so nothing is split): they must
        # come out escaped with THIS set, whatever sets were used before in the process
        lib = tables.lib(v)
        raw = 'q' + ec['FIELD'] + ec['COMPONENT'] + 'r' + ec['SUBCOMPONENT'] + 's' + ec['REPETITION'] + ec['ESCAPE'] + 't' + \
            ec.get('TRUNCATION', '') + 'u'
        esc = er7ref.ref_escape(raw, ec, er7ref.letters_for(v))
        z = m.add_segment('ZZ9') if False else core.Segment('ZZ9', version=v)
        m.add(z)
        z.zz9_2 = 'k'
        z.zz9_2[0].children.list[0].children.list[0].value = lib.BASE_DATATYPES['ST'](raw)
        er = m.to_er7()
        zline = [l for l in er.split('\r') if l.startswith('ZZ9')]
        if zline != ['ZZ9' + ec['FIELD'] * 2 + esc]:
            rec.violation('delimiters-in-data-not-escaped-with-the-message-set', case, {'line': zline, 'want': esc})
            return
        rec.count('escaped_leaf_checks')
        if not judge_encoding(er, ec, v, seg, row, crow, rec, case, 'build', subs):
            return
        if m.encoding_chars != exp:
            rec.violation('encoding_chars-getter-differs:build', case, {'got': m.encoding_chars})
            return
        for e in treeinv.walk(m):
            rec.count('descendants_checked')
            if e.encoding_chars != exp:
                rec.violation('descendant-encoding_chars-differs:build', case, {'element': repr(e), 'got': e.encoding_chars})
                return
        if m.to_mllp() != MC.SB + er + MC.CR + MC.EB + MC.CR:
            rec.violation('to_mllp-framing', case, {'mllp': repr(m.to_mllp()[-6:])})
            return
        m2 = parser.parse_message(er)
        if m2.encoding_chars != exp:
            rec.violation('reparse-recovers-another-set', case, {'got': m2.encoding_chars})
            return
        if m2.to_er7() != er:
            rec.violation('reparse-encodes-differently', case, {'first': er[-80:], 'second': m2.to_er7()[-80:]})
            return
        for r in msh_rep[-3:]:
            got = [f.to_er7() for f in m2.msh.children.indexes.get(r.name, [])]
            rec.count('msh_repetition_checks')
            if got != ['H%d%s' % (r.num, x) for x in 'abc']:
                rec.violation('repeated-header-field-not-recovered', case, {'field': r.name, 'got': got})
                return
        rec.count('builder_path_ok')
    except Exception as e:
        rec.violation('raised:%s:build' % type(e).__name__, case, {'exc': repr(e)[:200]})
        return
    # ---- the caller's dictionary: given to an older-version message first (which has no truncation character), then to a
    # message of this version - it is the caller's, and still says what it said
    if 'TRUNCATION' in ec:
        rec.evaluation((v, ec_tuple(ec), 'shared-dict'))
        try:
            shared = dict(ec)
            try:
                core.Message('ADT_A01', version='2.5', encoding_chars=shared)
            except Exception:
                rec.count('six_character_set_refused_by_older_version')
            m6 = core.Message('ADT_A01', version=v, encoding_chars=shared)
            rec.count('shared_dictionary_checks')
            if {k: x for k, x in shared.items() if k not in ('GROUP', 'SEGMENT')} != dict(ec) or \
                    m6.encoding_chars != exp or m6.msh.msh_2.to_er7() != gen.msh2(ec):
                rec.violation('callers-dictionary-altered-or-truncation-lost', case,
                              {'dictionary_now': shared, 'msh_2': m6.msh.msh_2.to_er7()})
                return
        except Exception as e:
            rec.violation('raised:%s:shared-dict' % type(e).__name__, case, {'exc': repr(e)[:200]})
            return
    # ---- MSH-2 re-assigned through the ordinary child API: from then on the new characters govern the whole message
    rec.evaluation((v, ec_tuple(ec), 'msh2-reassigned'))
    try:
        pool = [c for c in '!$%*+;<=>?@#' if c not in ec.values()]
        ec2 = dict(ec, COMPONENT=pool[0], REPETITION=pool[1], ESCAPE=pool[2], SUBCOMPONENT=pool[3])
        m.encoding_chars, m.to_er7()
        m.children.remove(z)       # (its leaf holds the old delimiters as data: plain characters under the new set)
        m.msh.msh_2 = gen.msh2(ec2)
        er2 = m.to_er7()
        rec.count('msh2_reassignment_checks')
        if m.encoding_chars != gen.full_ec(ec2):
            rec.violation('encoding_chars-getter-differs:msh2-reassigned', case, {'got': m.encoding_chars, 'msh_2': gen.msh2(ec2)})
            return
        if not judge_encoding(er2, ec2, v, seg, row, crow, rec, case, 'msh2-reassigned', subs):
            return
    except Exception as e:
        rec.violation('raised:%s:msh2-reassigned' % type(e).__name__, case, {'exc': repr(e)[:200]})
        return
    # ---- a segment prepared on its own (written and read back, so anything it remembers is filled), then added to a message
    # built with this set: from then on the message's characters govern it, for reading back and for splitting new text
    rec.evaluation((v, ec_tuple(ec), 'moved-subtree'))
    try:
        m5 = core.Message('ADT_A01', version=v, encoding_chars=dict(ec))
        m5.msh.msh_7 = '20200101120000'
        sg = core.Segment(seg, version=v)
        setattr(sg, row.name.lower(), 'w1')
        for e in treeinv.walk(sg):
            e.encoding_chars, e.to_er7()
        getattr(sg, row.name.lower()).to_er7()
        m5.add(sg)
        for e in treeinv.walk(sg):
            rec.count('descendants_checked')
            if e.encoding_chars != exp:
                rec.violation('descendant-encoding_chars-differs:moved-subtree', case, {'element': repr(e),
                                                                                         'got': e.encoding_chars})
                return
        # text holding this set's separators, assigned through the moved segment, is split with them
        sg.add_field(row.name).value = rep_text(ec, crow, 2, subs)
        line = [l for l in m5.to_er7().split('\r') if l.startswith(seg)]
        want = seg + ec['FIELD'] * row.num + ec['COMPONENT'] * (crow.num - 1) + 'w1' + ec['REPETITION'] + rep_text(ec, crow, 2, subs)
        rec.count('moved_subtree_checks')
        if crow.num == 1 and line != [want]:
            rec.violation('moved-subtree-splits-text-with-other-characters', case, {'line': line, 'want': want})
            return
        elif crow.num != 1:
            got_tok = er7ref.tokenize_segment(line[0], ec)[1] if line else None
            fld = got_tok[row.num - 1] if got_tok and len(got_tok) >= row.num else None
            if not fld or len(fld) != 2 or er7ref.shape([fld])[0][1][1] != er7ref.shape(
                    [er7ref.tokenize_segment(seg + ec['FIELD'] + rep_text(ec, crow, 2, subs), ec)[1][0]])[0][1][0]:
                rec.violation('moved-subtree-splits-text-with-other-characters', case, {'line': line})
                return
    except Exception as e:
        rec.violation('raised:%s:moved-subtree' % type(e).__name__, case, {'exc': repr(e)[:200]})
        return
    # ---- parser path
    rec.evaluation((v, ec_tuple(ec), 'parse'))
    try:
        f = ec['FIELD']
        C = ec['COMPONENT']
        text = structref.msh_line(v, 'ADT_A01', ec) + '\r' + seg + f * row.num + field_text(ec, crow, subs) + \
            '\rZZ1' + f + 'z1' + C + 'z2' + ec['REPETITION'] + 'z3' + '\r' + seg + f * row.num + rep_text(ec, crow, 3, subs)
        body = text.split('\r', 1)[1]
        # the same segments under a structure name the version does not know (kept as a flat message): MSH-1/MSH-2 govern
        unknown = structref.msh_line(v, 'ADT_A01', ec, msh9='XQX^Y77') + '\r' + body
        # ... and with an MSH-12 that carries the internationalization code besides the version id
        with_vid = structref.msh_line(v, 'ADT_A01', ec, vid=True) + '\r' + body
        for text, fg in ((text, True), (text, False), (unknown, True), (unknown, False), (with_vid, True)):
            rec.count('parser_path_texts')
            m3 = parser.parse_message(text, find_groups=fg)
            er3 = m3.to_er7()
            if er3 != text:
                rec.violation('parse-path-encodes-differently', case, {'in': text[-80:], 'out': er3[-80:]})
                return
            if not judge_encoding(er3, ec, v, seg, row, crow, rec, case, 'parse', subs):
                return
            if m3.encoding_chars != exp:
                rec.violation('encoding_chars-getter-differs:parse', case, {'got': m3.encoding_chars})
                return
            for e in treeinv.walk(m3):
                rec.count('descendants_checked')
                if e.encoding_chars != exp:
                    rec.violation('descendant-encoding_chars-differs:parse', case, {'element': repr(e)})
                    return
        rec.count('parser_path_ok')
    except Exception as e:
        rec.violation('raised:%s:parse' % type(e).__name__, case, {'exc': repr(e)[:200]})
        return
    # ---- a text declaring the same characters but the other choice about the truncation character, assigned to the built
    # message: refused (the library's rule), or else the message consistently becomes what the text declares
    if er7ref.vkey(v) >= (2, 7):
        from hl7apy.exceptions import OperationNotAllowed
        other = {k: x for k, x in ec.items() if k != 'TRUNCATION'}
        if 'TRUNCATION' not in ec:
            other['TRUNCATION'] = [c for c in '#!$%*+;<=>?@' if c not in ec.values()][0]
        rec.evaluation((v, ec_tuple(ec), 'assign-other-truncation'))
        try:
            m4 = core.Message('ADT_A01', version=v, encoding_chars=dict(exp))
            t4 = structref.msh_line(v, 'ADT_A01', other) + '\r' + seg + other['FIELD'] * row.num + field_text(other, crow, subs)
            try:
                m4.value = t4
            except OperationNotAllowed:
                rec.count('other_truncation_refused')
            else:
                rec.count('other_truncation_accepted')
                want = dict(other, GROUP='\r', SEGMENT='\r')
                back = parser.parse_message(m4.to_er7())
                f4 = m4.to_er7()[3]
                emitted = len(m4.to_er7().split(f4)[1]) == 5
                if emitted != ('TRUNCATION' in ec):
                    # the set was given to Message(...): its truncation character is emitted exactly when it was supplied
                    rec.violation('truncation-character-not-emitted-exactly-when-supplied', case,
                                  {'supplied_to_Message': ec.get('TRUNCATION'), 'msh': m4.to_er7()[:12],
                                   'after': 'message.value = <text declaring %r>' % ''.join(x for x in ec_tuple(other) if x)})
                elif m4.encoding_chars != want or m4.to_er7() != t4 or back.encoding_chars != want:
                    rec.violation('assigned-text-with-other-truncation-leaves-an-inconsistent-set', case,
                                  {'declared': ec_tuple(other), 'getter': m4.encoding_chars.get('TRUNCATION'),
                                   'msh': m4.to_er7()[:12], 'reparsed': back.encoding_chars.get('TRUNCATION')})
        except Exception as e:
            rec.violation('raised:%s:assign-other-truncation' % type(e).__name__, case, {'exc': repr(e)[:200]})
    # ---- a text declaring the same characters in other roles (two of them exchanged), assigned to the built message:
    # refused, or else the message consistently becomes what the text declares - never a mixture
    from hl7apy.exceptions import OperationNotAllowed as _ONA
    for a, b in (('COMPONENT', 'REPETITION'), ('SUBCOMPONENT', 'ESCAPE'), ('COMPONENT', 'SUBCOMPONENT'),
                 ('REPETITION', 'ESCAPE')):
        perm = dict(ec)
        perm[a], perm[b] = perm[b], perm[a]
        rec.evaluation((v, ec_tuple(ec), 'assign-permuted-roles', a, b))
        try:
            m5 = core.Message('ADT_A01', version=v, encoding_chars=dict(exp))
            before = m5.to_er7()
            t5 = structref.msh_line(v, 'ADT_A01', perm) + '\r' + seg + perm['FIELD'] * row.num + field_text(perm, crow, subs)
            try:
                m5.value = t5
            except _ONA:
                rec.count('permuted_roles_refused')
                if m5.encoding_chars != exp:
                    rec.violation('refused-text-with-permuted-roles-changed-the-set', case,
                                  {'exchanged': [a, b], 'getter': ec_tuple(m5.encoding_chars)})
            else:
                rec.count('permuted_roles_accepted')
                want = gen.full_ec(perm)
                back = parser.parse_message(m5.to_er7())
                if m5.encoding_chars != want or m5.to_er7() != t5 or back.to_er7() != t5 or back.encoding_chars != want:
                    rec.violation('assigned-text-with-permuted-roles-leaves-an-inconsistent-message', case,
                                  {'exchanged': [a, b], 'assigned': t5[-60:], 'encoded': m5.to_er7()[-60:],
                                   'getter': ec_tuple(m5.encoding_chars)})
        except Exception as e:
            rec.violation('raised:%s:assign-permuted-roles' % type(e).__name__, case, {'exc': repr(e)[:200]})


def run_sets(spec, rec):
    from hl7apy import core, parser
    v = spec['version']
    rng = gen.rng_for(spec['seed'], 'c07', v)
    if shape_field(v) is None:
        rec.inconclusive_reason('no shape field in version %s' % v)
        return
    new = er7ref.vkey(v) >= (2, 7)
    prev = None
    for i in range(spec['n']):
        ec = gen.delimiter_set(rng, v, with_truncation=(i % 2 == 0) if new else False)
        ec = {k: x for k, x in ec.items() if k not in ('SEGMENT', 'GROUP')}
        if prev is not None and i % 3 == 1:
            # the previous set with only the field separator changed / two roles exchanged (same process)
            ec = dict(prev)
            if i % 2:
                ec['FIELD'] = rng.choice([c for c in '!$%*+;<=>?@' if c not in ec.values()])
            else:
                a, b = rng.sample(['FIELD', 'COMPONENT', 'SUBCOMPONENT', 'REPETITION', 'ESCAPE'], 2)
                ec[a], ec[b] = ec[b], ec[a]
        prev = ec
        check_set(core, parser, v, ec, rec)
        if i == 0:
            rec.sample({'version': v, 'ec': ''.join(x for x in ec_tuple(ec) if x)})
        rec.seen('with_truncation', str('TRUNCATION' in ec))
    check_set(core, parser, v, dict(er7ref.std(v)), rec)
    rec.seen('versions', v)


def run_invalid(spec, rec):
    from hl7apy import core, parser
    from hl7apy.exceptions import InvalidEncodingChars
    keys = ('FIELD', 'COMPONENT', 'SUBCOMPONENT', 'REPETITION', 'ESCAPE')
    for v in tables.versions():
        new = er7ref.vkey(v) >= (2, 7)
        base = {'FIELD': '!', 'COMPONENT': '@', 'SUBCOMPONENT': '$', 'REPETITION': '%', 'ESCAPE': '*'}
        bads = []
        for k in keys:
            d = dict(base)
            del d[k]
            bads.append(('missing-' + k, d))
        for i, a in enumerate(keys):
            for b in keys[i + 1:]:
                d = dict(base)
                d[b] = d[a]
                bads.append(('duplicate-%s-%s' % (a, b), d))
        if new:
            for a in keys:
                d = dict(base, TRUNCATION=base[a])
                bads.append(('duplicate-TRUNCATION-%s' % a, d))
        for what, d in bads:
            case = {'kind': 'invalid', 'version': v, 'what': what, 'ec': d}
            rec.evaluation((v, what, 'ctor'))
            try:
                core.Message('ADT_A01', version=v, encoding_chars=dict(d))
                rec.violation('invalid-set-accepted:%s' % what.split('-')[0] + ('-TRUNCATION' if 'TRUNCATION' in what else ''),
                              case, {})
            except InvalidEncodingChars:
                rec.count('invalid_sets_rejected')
            except Exception as e:
                rec.violation('invalid-set-raised-%s' % type(e).__name__, case, {'exc': repr(e)[:150]})
            # the same set spelled in MSH-1/MSH-2 of a text
            if what.startswith('duplicate') and 'FIELD' not in what:   # a set duplicating FIELD cannot be spelled in text
                rec.evaluation((v, what, 'text'))
                t = {'TRUNCATION': ''}
                t.update(d)
                msh2 = t['COMPONENT'] + t['REPETITION'] + t['ESCAPE'] + t['SUBCOMPONENT'] + t['TRUNCATION']
                text = 'MSH' + t['FIELD'] + msh2 + t['FIELD'] + t['FIELD'].join(
                    ['A', 'B', 'C', 'D', '20200101', '', 'ADT' + t['COMPONENT'] + 'A01', '1', 'P', v])
                try:
                    parser.parse_message(text)
                    rec.violation('invalid-set-accepted-from-text:%s' % what.split('-')[1], case, {'text': text[:40]})
                except InvalidEncodingChars:
                    rec.count('invalid_sets_rejected')
                except Exception as e:
                    rec.violation('invalid-set-from-text-raised-%s' % type(e).__name__, case, {'exc': repr(e)[:150]})
    rec.sample({'kind': 'invalid', 'example': {'FIELD': '!', 'COMPONENT': '!', '...': '...'}})


def run_shard(spec, rec):
    {'sets': run_sets, 'invalid': run_invalid}[spec['kind']](spec, rec)


def replay(case, rec):
    from hl7apy import core, parser
    if case['kind'] == 'set':
        check_set(core, parser, case['version'], case['ec'], rec)
    else:
        run_invalid({}, rec)


def floors(tier, m):
    out = []
    c = m['counters']
    if c.get('msh_repetition_checks', 0) < 100 and not m['violation_counts']:
        out.append('repeated MSH fields recovered: %s' % c.get('msh_repetition_checks'))
    if c.get('builder_path_ok', 0) + c.get('parser_path_ok', 0) < 1000 and not m['violation_counts']:
        out.append('fewer than 1000 judged paths')
    if len(m['seen'].get('versions', ())) != len(tables.versions()):
        out.append('not every version')
    if set(m['seen'].get('with_truncation', ())) != {'True', 'False'}:
        out.append('both truncation modes not seen')
    if c.get('invalid_sets_rejected', 0) < 100:
        out.append('invalid sets clause barely exercised')
    return out
