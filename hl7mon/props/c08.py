"""C08 - group-finding is sound, order-preserving and deterministic.

Monitor: the prescribed group tree is produced by the generator while it emits the text (structref.emit), so the oracle
never re-implements the library's search.  Per instance: soundness against tables.py, flattening identity, equivalence
with find_groups=False, determinism; for unambiguous instances exact tree equality and validation.
"""
from .. import tables, er7ref, gen, structref

ID = 'C08'
LEVEL = 'exploration'
RULE = ('every message structure of every version x instances generated from it (required-only, all-children, random subsets, '
        'repeated groups to depth 3 with 1-3 repetitions); each line carries a unique token where the segment has a textual '
        'field; non-trivial = the parser opened at least one group; distinct = (version, structure, mode, emitted line/path '
        'sequence)')
ASSUMPTIONS = [
    'structures containing a choice node or the ANYHL7SEGMENT pseudo-segment, or naming a segment whose table rows are '
    'malformed (C02 findings), are counted and skipped',
    'the exact-tree and validation clauses are judged only for unambiguous instances (every segment name used occurs at one '
    'place in the structure), as the statement says; group repetitions are generated where the repetition starts with a '
    'non-repeatable member the previous repetition holds - a direct member, or (mode nested-repeat) a member of non-repeatable '
    'nested groups',
]


def plan(tier, seed):
    # shards partition the structure NAMES; inside a shard every name is processed for all the versions defining it, one
    # after the other in the same process (ascending or descending): what one version taught the library must not leak
    # into another
    parts = 24 if tier == 'quick' else 48
    rounds = 1 if tier == 'quick' else 4
    return [{'part': p, 'parts': parts, 'rounds': rounds} for p in range(parts)]


def token_line(v, seg, toks, mode):
    """conforming line for `seg` with a unique token in its first textual, non-required-typed field if there is one"""
    line = structref.conforming_segment_line(v, seg, 'required' if mode != 'all' else 'required')
    rows = [r for r in gen.usable_rows(v, seg) if r.kind == 'leaf' and r.datatype in ('ST', 'TX', 'FT') and r.card[0] == 0]
    if rows:
        r = rows[0]
        parts = line.split('|')
        while len(parts) <= r.num:
            parts.append('')
        if parts[r.num] == '':
            parts[r.num] = toks.next()
            line = '|'.join(parts)
    return line


def declared_children(node):
    return {c.name for c in node.children}


def node_index(root):
    idx = {}
    for n in tables.walk_nodes(root):
        if n.kind in ('GRP', 'MSG'):
            idx.setdefault(n.name, n)
    return idx


def soundness(el, node, idx, errs, path=()):
    names = declared_children(node)
    for c in el.children.list:
        if c.name not in names and not (c.classname == 'Segment' and c.name[:1] == 'Z'):
            # (locally defined Z segments are declared nowhere and may stand anywhere)
            errs.append('%s under %s' % (c.name, node.name))
        if c.classname == 'Group':
            sub = [x for x in node.children if x.name == c.name and x.kind == 'GRP']
            if sub:
                soundness(c, sub[0], idx, errs, path + (c.name,))


def flatten(el, out):
    for c in el.children.list:
        if c.classname == 'Group':
            flatten(c, out)
        else:
            out.append(c)
    return out


def nested_recurrence(want, got):
    """mechanism of the known deviation: a non-repeatable member recurs one or more levels below the group that has to
    repeat; prescribed (..., (G, r), (H, 0), ...) - the library opens a second instance of the non-repeatable inner group
    instead: (..., (G, r - 1), (H, 1), ...)"""
    if want.seg != got.seg or len(want.path) != len(got.path) or len(want.path) < 2:
        return False
    for i in range(len(want.path) - 1):
        if want.path[i] == got.path[i]:
            continue
        (g1, r1), (g2, r2) = want.path[i], got.path[i]
        (h1, k1), (h2, k2) = want.path[i + 1], got.path[i + 1]
        return g1 == g2 and r2 == r1 - 1 and h1 == h2 and k1 == 0 and k2 >= 1
    return False


def check_instance(parser, v, name, node, lines, text, mode, rec):
    case = {'version': v, 'structure': name, 'mode': mode, 'text': text,
            'paths': [[l.seg, [list(p) for p in l.path]] for l in lines]}
    sig = (v, name, mode, tuple((l.seg, l.path) for l in lines))
    unamb = structref.unambiguous(v, node, lines) and mode != 'z-inside'
    try:
        m = parser.parse_message(text, find_groups=True)
        m2 = parser.parse_message(text, find_groups=True)
        flat = parser.parse_message(text, find_groups=False)
    except Exception as e:
        rec.evaluation(sig, nontrivial=False)
        rec.violation('parse-raised:%s' % type(e).__name__, case, {'exc': repr(e)[:200]}, row='%s|%s' % (v, name))
        return
    got = structref.tree_of(m)
    opened = any(l.path for l in got)
    rec.evaluation(sig, nontrivial=opened)
    rec.count('instances')
    rec.count('instances_unambiguous' if unamb else 'instances_ambiguous')
    row = '%s|%s' % (v, name)
    errs = []
    soundness(m, node, None, errs)
    if errs:
        rec.violation('child-not-declared-by-its-parent', case, {'errors': errs[:4]}, row=row)
        return
    segs = flatten(m, [])
    inlines = [l for l in text.split('\r') if l]
    if mode == 'blank-tail':
        inlines = [l.strip() for l in inlines]     # blanks around a segment's text are no part of it, under either setting
    outlines = [s.to_er7() for s in segs]
    if outlines != inlines:
        rec.violation('flattening-differs-from-input', case, {'in': len(inlines), 'out': len(outlines),
                                                             'first_diff': str([(a, b) for a, b in zip(inlines, outlines)
                                                                                if a != b][:1])[:200]}, row=row)
        return
    if flat.to_er7() != m.to_er7():
        rec.violation('find_groups-off-encodes-differently', case, {}, row=row)
        return
    if structref.tree_of(m2) != got:
        rec.violation('nondeterministic-tree', case, {}, row=row)
        return
    # a message profile that restates the standard structure (an equal copy, not the library's own objects): same tree
    if mode in ('repeat', 'random') and got and got[-1].path and name != 'ACK':
        # a profile restating the structure and declaring one local segment (ZPD) as the last child of the message: when it
        # arrives the open groups are closed - it is a child of the message, nothing else moves
        from . import c18
        t = c18.thaw(tables.lib(v).MESSAGES[name])
        t[1].append(['ZPD', ['sequence', [['ZPD_1', ['leaf', None, 'ST', 'NOTE', None, 20], [0, 1], 'FIE']]], [0, 1], 'SEG'])
        try:
            tz = structref.tree_of(parser.parse_message(text + '\rZPD|n', message_profile={name: c18.freeze(t)},
                                                        find_groups=True))
        except Exception as e:
            rec.violation('parse-with-profile-declaring-a-local-segment-raised:%s' % type(e).__name__, case,
                          {'exc': repr(e)[:200]}, row=row)
            return
        rec.count('local_segment_of_a_profile_arriving_in_an_open_group')
        if tz != got + [structref.Line('ZPD', ())]:
            rec.violation('local-segment-declared-by-the-profile-not-attached-to-its-declared-parent', case,
                          {'tail_of_tree': str(tz[-2:])[:200]}, row=row)
            return
    if mode in ('repeat', 'random', 'z-inside'):
        from . import c18
        prof = {name: c18.freeze(c18.thaw(tables.lib(v).MESSAGES[name]))}
        try:
            tp = structref.tree_of(parser.parse_message(text, message_profile=prof, find_groups=True))
        except Exception as e:
            rec.violation('parse-with-restating-profile-raised:%s' % type(e).__name__, case, {'exc': repr(e)[:200]}, row=row)
            return
        rec.count('restating_profile_trees_compared')
        if tp != got:
            d = [(a, b) for a, b in zip(got, tp) if a != b][:2]
            rec.violation('restating-profile-changes-the-group-tree', case, {'first_diff': str(d)[:300]}, row=row)
            return
    # the same text assigned to a message created without a name (it becomes that message) and to one created with it
    from hl7apy import core
    for how, mk in (('unnamed', lambda: core.Message(version=v, encoding_chars=gen.full_ec(er7ref.STD))),
                    ('named', lambda: core.Message(name, version=v, encoding_chars=gen.full_ec(er7ref.STD)))):
        try:
            m3 = mk()
            m3.value = text
            t3 = structref.tree_of(m3)
        except Exception as e:
            rec.violation('assigned-text-raised:%s:%s' % (how, type(e).__name__), case, {'exc': repr(e)[:200]}, row=row)
            return
        rec.count('assigned_text_trees_compared')
        if t3 != got:
            d = [(a, b) for a, b in zip(got, t3) if a != b][:2]
            rec.violation('tree-differs-when-text-is-assigned:%s' % how, case, {'first_diff': str(d)[:300]}, row=row)
            return
    rec.count('soundness_flatten_equivalence_checks')
    if unamb:
        want = list(lines)
        if got != want:
            d = [(a, b) for a, b in zip(want, got) if a != b][:2]
            cause = 'tree-differs-from-prescribed'
            if mode == 'nested-repeat' and d and nested_recurrence(d[0][0], d[0][1]):
                cause = 'nested-member-recurrence-opens-the-inner-group'
            rec.violation(cause, case, {'first_diff': str(d)[:300]}, row=row)
            return
        rec.count('exact_tree_checks')
        try:
            r = m.validate(return_errors=True)
        except Exception as e:
            rec.violation('validate-raised:%s' % type(e).__name__, case, {'exc': repr(e)[:200]}, row=row)
            return
        if not r.is_valid:
            rec.violation('conforming-unambiguous-instance-does-not-validate', case,
                          {'errors': [str(e) for e in r.errors][:3]}, row=row)
            return
        rec.count('validated_instances')


def run_shard(spec, rec):
    from hl7apy import parser
    rng = gen.rng_for(spec['seed'], 'c08', spec['part'])
    toks = gen.Tokens('p%d' % spec['part'])
    vs = tables.versions()
    allnames = sorted({n for v in vs for n in tables.messages(v)})
    mine = [n for i, n in enumerate(allnames) if i % spec['parts'] == spec['part']]
    todo = []
    for j, name in enumerate(mine):
        having = [v for v in vs if name in tables.messages(v)]
        todo.extend((name, v) for v in (having if j % 2 else having[::-1]))
    for name, v in todo:
        msgs = tables.messages(v)
        rec.seen('versions', v)
        node = msgs[name]
        why = structref.unusable_reason(v, node)
        if why is None and structref.msh9_for(v, name) is None:
            why = 'unnameable-in-MSH-9'
        if why:
            rec.count('structures_skipped:' + why.split(':')[0])
            if why.startswith('missing-reference') or why == 'no-MSH':
                rec.violation('structure-lists-child-without-reference', {'version': v, 'structure': name}, {'why': why},
                              row='%s|%s' % (v, name))
            continue
        rec.count('structures_used')
        # the same structure name stamped with a version that does not define it is parsed first (same process): what one
        # version does not know must not influence another
        others = [x for x in tables.versions() if x != v and name not in tables.messages(x)]
        if others:
            ov = others[len(name) % len(others)]
            try:
                parser.parse_message(structref.conforming_msh(ov, name) + '\rPID|1')
            except Exception:
                pass
            rec.count('cross_version_preludes')
        modes = ['required', 'all', 'repeat', 'random', 'nested-repeat']
        for r in range(spec['rounds']):
            for mode in modes:
                emode = {'required': 'required', 'all': 'all', 'repeat': 'all', 'random': 'random', 'nested-repeat': 'all'}[mode]
                # 'nested-repeat': a group repetition may also start with a non-repeatable member of a non-repeatable nested
                # group (a second PID opens a second PATIENT_RESULT)
                lines = structref.emit(node, rng, emode, 3 if mode in ('repeat', 'random') else 2 if mode == 'nested-repeat' else 1,
                                       wide=(mode == 'nested-repeat'))
                out = []
                for l in lines:
                    out.append(structref.conforming_msh(v, name) if l.seg == 'MSH' else token_line(v, l.seg, toks, mode))
                text = '\r'.join(out)
                check_instance(parser, v, name, node, lines, text, mode, rec)
                rec.seen('modes', mode)
                if mode in ('all', 'random') and len(out) > 1:
                    # blanks after the last field of some lines (and before a segment name): the two settings still agree
                    bout = [l + rng.choice(['', '  ', ' ', '\t']) if k else l for k, l in enumerate(out)]
                    bout[-1] = bout[-1] + '   '
                    if len(bout) > 2:
                        bout[1] = ' ' + bout[1]
                    if rng.random() < 0.5:
                        # a sender terminating its segments with CR LF
                        bout = [out[0]] + ['\n' + l for l in out[1:]]
                        rec.count('instances_with_CRLF_terminators')
                    check_instance(parser, v, name, node, lines, '\r'.join(bout), 'blank-tail', rec)
                    rec.seen('modes', 'blank-tail')
                if mode in ('all', 'random') and len(out) > 2:
                    # the same instance with locally defined (Z) segments between its lines, also inside groups and right
                    # before a segment of an outer level: every line is kept, in order, under both settings
                    zout = list(out)
                    for _ in range(rng.randint(1, 3)):
                        zout.insert(rng.randint(1, len(zout)), 'Z%s%s|%s' % (rng.choice('ABZ19'), rng.choice('ABZ19'),
                                                                              toks.next()))
                    check_instance(parser, v, name, node, lines, '\r'.join(zout), 'z-inside', rec)
                    rec.seen('modes', 'z-inside')
        if rec.counters.get('instances', 0) <= 4:
            rec.sample({'version': v, 'structure': name, 'text': text[:300]})


def replay(case, rec):
    from hl7apy import parser
    v, name = case['version'], case['structure']
    node = tables.messages(v)[name]
    lines = [structref.Line(s, tuple(tuple(p) for p in path)) for s, path in case['paths']]
    check_instance(parser, v, name, node, lines, case['text'], case['mode'], rec)


def floors(tier, m):
    out = []
    c = m['counters']
    if c.get('structures_used', 0) < 1500:
        out.append('fewer than 1500 structures used: %s' % c.get('structures_used'))
    if c.get('exact_tree_checks', 0) < 1000:
        out.append('fewer than 1000 exact-tree checks')
    if c.get('validated_instances', 0) < 1000 and not m['violation_counts']:
        out.append('fewer than 1000 validated instances')
    if len(m['seen'].get('versions', ())) != len(tables.versions()):
        out.append('not every version')
    return out
