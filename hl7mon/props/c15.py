"""C15 - bad input fails with the library's exceptions, never with a crash.

Monitor: exception classification at the entry points (parse_message, get_message_type; to_er7 and
validate(return_errors=True) on whatever parsed).  Allowed: HL7apyException subclasses, plus ValueError under STRICT.
A leak is keyed by (stage, exception type, innermost hl7apy function) - never by the random input.
"""
import traceback

from .. import tables, er7ref, gen, structref
from . import c01

ID = 'C15'
LEVEL = 'exploration'
RULE = ('seeded mutation fuzzer over valid messages of all versions (generated from the structure tables) and hand-written '
        'bases: truncation at every byte, deleted / duplicated / inserted delimiters, 4- vs 5-character MSH-2 with short '
        'headers, missing MSH-9 / MSH-12, unknown versions, garbled / short / Z segment names over the whole alphanumeric '
        'alphabet, blank lines, CR/LF variants, grammar-free junk; parse_message with find_groups on/off under both levels, '
        'get_message_type, then to_er7 and validate(return_errors=True) on what parsed; non-trivial = input differs from '
        'every base message; distinct = (input text, level, find_groups)')
ASSUMPTIONS = [
    'allowed outcomes: a result, an HL7apyException subclass, or ValueError under STRICT',
    'inputs are str; resource exhaustion (RecursionError, MemoryError) on pathological sizes is not generated',
]

HAND = [
    'MSH|^~\\&|A|B|C|D|20200101||ADT^A01^ADT_A01|1|P|2.5\rEVN||20200101\rPID|1||123^^^X&1.2&ISO^MR~456||DOE^JOHN^^^^^L||19800101|M\rPV1|1|I|W^1^2\rOBX|1|NM|X^Y||12.5\rZZZ|1',
    'MSH|^~\\&#|A|B|C|D|20200101||ORU^R01^ORU_R01|1|P|2.7\rPID|1||1\rOBR|1\rOBX|1|ST|X||v',
    'MSH|^~\\&|A|B|C|D|20200101||QBP^Q22^QBP_Q21|1|P|2.5\rQPD|Q|1|@PID.3.1^1\rRCP|I',
    'MSH|^~\\&|A|B|C|D|20200101||ACK|1|P|2.3\rMSA|AA|1',
    'MSH|^~\\&|A|B|C|D|20200101||ZZZ^Z01^ZZZ_Z01|1|P|2.4\rZAB|1|2\rZ0Z|1',
    'MSH|^~\\&#|A|B',
    'MSH|^~\\&|A|B|C|D|20200101||ADT^A01|1|P|2.2\rEVN|A01|20200101\rPID|||1||D^J\rPV1||I',
]


def plan(tier, seed):
    n = 1500 if tier == 'quick' else 40000
    specs = [{'kind': 'fuzz', 'version': v, 'n': n} for v in tables.versions()]
    specs.append({'kind': 'systematic'})
    # every field row of every segment populated once with a hostile shape (also the rows a fuzzer rarely reaches)
    specs += [{'kind': 'rows', 'version': v} for v in tables.versions()]
    specs.append({'kind': 'fuzz', 'version': None, 'n': n})
    if tier == 'thorough':
        specs.append({'kind': 'atheris', 'secs': 240})
    return specs


def innermost_hl7apy_frame(exc):
    fn = None
    for fs in traceback.extract_tb(exc.__traceback__):
        if '/hl7apy/' in fs.filename.replace('\\', '/'):
            fn = '%s:%s' % (fs.filename.replace('\\', '/').split('/hl7apy/')[-1], fs.name)
    return fn or 'outside-hl7apy'


class Recorder_like(object):
    """minimal recorder used when re-probing a reduced input"""

    def __init__(self):
        self.causes = []

    def violation(self, cause, *a, **k):
        self.causes.append(cause)

    def evaluation(self, *a, **k):
        pass

    def count(self, *a, **k):
        pass

    def seen(self, *a, **k):
        pass


class _WriteOnly(object):
    def __init__(self):
        self.parts = []

    def write(self, text):
        self.parts.append(text)


_bad_cache = {}


def malformed_lines(text):
    """[(version, segment)] for the lines of `text` naming a segment with a malformed table row in the text's version"""
    try:
        first = text.lstrip().split('\r', 1)[0]
        f = first[3]
        v = first.split(f)[11].split(first[4])[0]
    except Exception:
        return []
    if v not in tables.versions():
        return []
    if v not in _bad_cache:
        segs = tables.segments(v)
        _bad_cache[v] = {s for s, rows in segs.items() if rows is None or any(not r.ok for r in rows)}
    return [(v, l[:3]) for l in text.split('\r') if l[:3] in _bad_cache[v]]


def probe(s, rec, bases=(), _nested=False):
    """run every entry point on one input; -> number of leaks"""
    from hl7apy.parser import parse_message, get_message_type
    from hl7apy.exceptions import HL7apyException
    nontrivial = s not in bases
    leaks = 0

    def leak(stage, e, extra):
        cause = 'leak:%s:%s:%s' % (stage, type(e).__name__, innermost_hl7apy_frame(e))
        row = None
        if not _nested:
            bad = malformed_lines(s)
            if bad:
                # does the leak go away without the lines naming segments whose table rows are malformed (C02 findings)?
                names = {b[1] for b in bad}
                lines = s.split('\r')
                keep = '\r'.join(l for l in lines if l[:3] not in names)
                alone = '\r'.join([lines[0]] + [l for l in lines[1:] if l[:3] in names])
                sub, sub2 = Recorder_like(), Recorder_like()
                probe(keep, sub, bases, _nested=True)
                probe(alone, sub2, bases, _nested=True)
                # attributed to the malformed rows only when the leak goes away without those lines AND the header plus
                # those lines alone reproduce it
                if not any(c.startswith('leak:%s:' % stage) for c in sub.causes) and \
                        any(c.startswith('leak:%s:%s:' % (stage, type(e).__name__)) for c in sub2.causes):
                    cause, row = 'leak-through-malformed-table-row', '%s|%s' % bad[0]
        rec.violation(cause, dict({'kind': 'input', 'text': s}, **extra), {'exc': repr(e)[:200]}, row=row)

    rec.evaluation(('gmt', s), nontrivial)
    try:
        get_message_type(s)
        rec.count('get_message_type_returned')
    except HL7apyException:
        rec.count('get_message_type_hl7exc')
    except Exception as e:
        leak('get_message_type', e, {})
        leaks += 1
    for level in (1, 2):
        for fg in (True, False):
            rec.evaluation(('parse', s, level, fg), nontrivial)
            extra = {'level': level, 'find_groups': fg}
            try:
                m = parse_message(s, validation_level=level, find_groups=fg)
            except HL7apyException as e:
                rec.count('parse_hl7exc')
                rec.seen('hl7_exceptions', type(e).__name__)
                continue
            except ValueError as e:
                if level == 1:
                    rec.count('parse_valueerror_strict')
                else:
                    leak('parse_message', e, extra)
                    leaks += 1
                continue
            except Exception as e:
                leak('parse_message', e, extra)
                leaks += 1
                continue
            rec.count('parsed')
            if nontrivial:
                rec.count('parsed_mutants')
            try:
                m.to_er7()
            except Exception as e:
                leak('to_er7', e, extra)
                leaks += 1
            try:
                r = m.validate(return_errors=True)
                r.is_valid, len(r.errors), len(r.warnings)
                rec.count('validate_returned_report')
            except Exception as e:
                leak('validate', e, extra)
                leaks += 1
                continue
            try:
                # ... also when the report is written to "any object with a write method"
                sink = _WriteOnly()
                m.validate(report_file=sink, return_errors=True)
                if len(sink.parts) != len(r.errors) + len(r.warnings):
                    raise AssertionError('report object received %d lines for %d entries' % (len(sink.parts),
                                                                                            len(r.errors) + len(r.warnings)))
            except Exception as e:
                leak('validate-with-report-object', e, extra)
                leaks += 1
    return leaks


def base_messages(v, rng, k=6):
    msgs = tables.messages(v)
    names = [n for n in sorted(msgs) if structref.usable(v, msgs[n]) and structref.msh9_for(v, n)]
    out = []
    for n in rng.sample(names, min(k, len(names))):
        text, _, _ = c01.build_message(rng, v, n, msgs[n], rng.choice(['required', 'random']), 2)
        out.append(text)
    return out


ALNUM = 'ABCDEFGHIJKLMNOPQRSTUVWXYZ0123456789'


def mutate(s, rng):
    r = rng.random()
    if not s:
        return ''.join(rng.choice('MSH|^~\\&#\rAB12 ') for _ in range(rng.randint(0, 30)))
    if r < 0.15:
        return s[:rng.randrange(len(s) + 1)]
    if r < 0.30:
        i = rng.randrange(len(s))
        return s[:i] + s[i + 1:]
    if r < 0.40:
        i = rng.randrange(len(s))
        return s[:i] + s[i] + s[i:]
    if r < 0.48:
        for ver in tables.versions()[::-1]:
            if '|' + ver in s:
                return s.replace('|' + ver, '|' + rng.choice(['', '2', '2.9', 'x', '2.5.1^a&b', '99', ver + '^X', '2.', ' ']), 1)
        return s
    if r < 0.56:
        return s.replace('\r', '\r\r', rng.randint(1, 3)).replace('\r', rng.choice(['\r', '\n', '\r\n', '\r \r']), 1)
    if r < 0.66:
        i = rng.randrange(len(s))
        return s[:i] + rng.choice('|^~\\&#\r\n \t\x00é') + s[i:]
    if r < 0.76:
        # garble a segment name: any alphanumeric name incl. Z-names with digits, short names
        lines = s.split('\r')
        i = rng.randrange(len(lines))
        name = ''.join(rng.choice(ALNUM) for _ in range(rng.choice([3, 3, 3, 2, 1, 4])))
        if rng.random() < 0.5:
            name = 'Z' + name[1:]
        lines[i] = name + lines[i][3:]
        return '\r'.join(lines)
    if r < 0.84:
        # header surgery: 4 vs 5 encoding characters, short headers, missing MSH-9 / MSH-12
        lines = s.split('\r')
        h = lines[0].split('|')
        c = rng.random()
        if c < 0.25 and len(h) > 1:
            h[1] = h[1] + '#' if len(h[1]) == 4 else h[1][:4]
        elif c < 0.5:
            h = h[:rng.randint(1, len(h))]
        elif c < 0.7 and len(h) > 8:
            h[8] = rng.choice(['', 'ADT', '^', 'ADT^', '^^', 'ADT^A01^', 'XXX^Y01^XXX_Y01', 'ADT_A01'])
        elif len(h) > 11:
            h[11] = ''
        else:
            h = h + ['x'] * rng.randint(1, 12)
        lines[0] = '|'.join(h)
        return '\r'.join(lines)
    if r < 0.92:
        lines = s.split('\r')
        i = rng.randrange(len(lines))
        j = rng.randrange(len(lines))
        lines.insert(j, lines[i])
        return '\r'.join(lines)
    return ''.join(rng.choice('MSH|^~\\&#\rAB12 ') for _ in range(rng.randint(0, 30)))


def run_fuzz(spec, rec):
    v = spec['version']
    rng = gen.rng_for(spec['seed'], 'c15', v)
    bases = list(HAND) if v is None else base_messages(v, rng) + [HAND[0].replace('2.5', v)]
    for b in bases:
        probe(b, rec, bases)
    for i in range(spec['n']):
        s = rng.choice(bases)
        kinds = []
        for _ in range(rng.randint(1, 3)):
            s = mutate(s, rng)
        probe(s, rec, bases)
        if i < 2:
            rec.sample({'kind': 'fuzz', 'version': v, 'input': s[:200]})
    rec.seen('versions', str(v))


def run_systematic(spec, rec):
    """truncate at every byte; delete / duplicate each delimiter occurrence"""
    bases = HAND[:3] + [HAND[6]]
    for b in bases:
        for i in range(len(b) + 1):
            probe(b[:i], rec, bases)
            rec.count('truncations')
        for i, ch in enumerate(b):
            if ch in '|^~\\&#\r':
                probe(b[:i] + b[i + 1:], rec, bases)
                probe(b[:i] + ch + b[i:], rec, bases)
                rec.count('delimiter_edits', 2)
    for name in ('Z0Z', 'Z00', 'ZZ0', 'Z1', 'Z', '', 'ZZZZ', 'zzz', 'pid', '123', 'MSH', 'ZA '):
        for body in ('|1', '', '|', '|1^2&3~4'):
            probe(HAND[0] + '\r' + name + body, rec, bases)
    # a second (malformed) MSH line, segment names in other letter cases, blank characters as delimiters
    for line in ('MSH_\x7f\x7fH&~', 'MsH_\x7f&~&^~^c^^&', 'msh|^~\\&|x', 'MSH', 'MSH|', 'MSH|^~\\&', 'MSH^~|\\&|a', 'pid|1||x',
                 'Pid|1', 'MSH|^~\\&|A|B|C|D|20200101||ADT^A01^ADT_A01|2|P|2.5'):
        for head in (HAND[0], HAND[1], 'MSH|^~\\&|~&\x00uuk', 'MSH|^~\\&|~|||!||!||>E~'):
            probe(head + '\r' + line, rec, bases)
            rec.count('second_msh_probes')
    blanks = ['\x1c', '\x1d', '\x1e', '\x1f', '\x85', '\xa0', '\u2003', '\u2028', '\u2029', '\u3000', '\x0b', '\x0c']
    uni = ['^~\\' + b for b in blanks] + [b + '~\\&' for b in blanks[:6]] + ['^' + b + '\\&' for b in blanks[4:8]]
    for seps in ['^~\\\n', '^~\\ ', ' ~\\&', '^\t\\&', '^~\\&\n', '\n~\\&'] + uni:
        for tail in ('', '\rMSH|^~\\', '|A|B|C|D|20200101||ADT^A01^ADT_A01|1|P|2.5\rPID|1||x y&z'):
            probe('MSH|' + seps + tail, rec, bases)
            rec.count('blank_delimiter_probes')
    # every segment whose table rows are malformed (C02 findings), named explicitly in a message of its version
    for v in tables.versions():
        segs = tables.segments(v)
        for sname in sorted(segs):
            rows = segs[sname]
            if rows is None or any(not r.ok for r in rows):
                top = max([r.num for r in rows if r.num] or [1]) if rows else 1
                for body in ('|x', '|' * top + 'x^y'):
                    probe(structref.msh_line(v, 'ADT_A01') + '\r' + sname + body, rec, bases)
                    rec.count('malformed_segment_probes')
    # the optional arguments of parse_message at their edge values: an empty profile dictionary, forced validation with and
    # without a report object - the text is parsed (or refused with a library exception) all the same
    from hl7apy.parser import parse_message
    from hl7apy.exceptions import HL7apyException
    for b in HAND[:4]:
        for kwargs in ({'message_profile': {}}, {'message_profile': {}, 'force_validation': True},
                       {'force_validation': True, 'report_file': _WriteOnly()},
                       {'message_profile': {}, 'force_validation': True, 'report_file': _WriteOnly()}):
            for level in (1, 2):
                rec.evaluation(('optional-args', b[:30], level, tuple(sorted(kwargs))))
                try:
                    parse_message(b, validation_level=level, **kwargs)
                    rec.count('optional_argument_probes_returned')
                except (HL7apyException, ValueError):
                    rec.count('optional_argument_probes_refused')
                except Exception as e:
                    rec.violation('leak:parse_message-optional-arguments:%s:%s' % (type(e).__name__, innermost_hl7apy_frame(e)),
                                  {'kind': 'optional-args', 'text': b, 'level': level, 'kwargs': sorted(kwargs)},
                                  {'exc': repr(e)[:200]})
    rec.sample({'kind': 'systematic', 'example': bases[0][:17]})


def run_rows(spec, rec):
    v = spec['version']
    head = structref.msh_line(v, 'ADT_A01')
    n = 0
    for sname, rows in sorted(tables.segments(v).items()):
        if not rows or sname == 'MSH':
            continue
        for r in rows:
            if not r.num:
                continue
            probe(head + '\r' + sname + '|' * r.num + 'a^b&c~d', rec, ())
            n += 1
            if r.kind == 'sequence' or r.datatype == 'varies':
                # every component (and the first sub-components) of the field's datatype holds something: every leaf class
                # of the version is built, encoded and validated at least where the tables use it
                probe(head + '\r' + sname + '|' * r.num + '^'.join('c%d&s&t' % k for k in range(1, 15)), rec, ())
                rec.count('deep_field_row_probes')
    # structures with a choice of segments (ORM_O01: OBR | RQD | RQ1 | RXO | ODS | ODT): every alternative, sent once and
    # twice in a row
    msgs = tables.messages(v)
    for name in sorted(msgs):
        node = msgs[name]
        if not node.ok or not tables.has_choice_or_pseudo(node) or structref.msh9_for(v, name) is None:
            continue
        alts = 1
        for g in tables.walk_nodes(node):
            if g.kind in ('GRP', 'MSG') and g.content == 'choice':
                alts = max(alts, len(g.children))
        for k in range(min(alts, 8)):
            for twice in (False, True):
                lines = []

                def walk(nd):
                    for c in nd.children:
                        if not c.ok or c.card[1] == 0 or c.name == 'ANYHL7SEGMENT':
                            continue
                        if c.kind == 'SEG':
                            lines.append(c.name)
                        elif c.content == 'choice' and c.children:
                            a = c.children[k % len(c.children)]
                            if a.kind == 'SEG':
                                lines.extend([a.name] * (2 if twice else 1))
                            else:
                                walk(a)
                        else:
                            walk(c)
                walk(node)
                try:
                    text = '\r'.join(structref.msh_line(v, name) if l == 'MSH' else '%s|1|x' % l for l in lines)
                except Exception:
                    continue
                probe(text, rec, ())
                rec.count('choice_structure_probes')
    rec.count('field_row_probes', n)
    rec.sample({'kind': 'rows', 'version': v, 'example': 'PID|||||a^b&c~d'})


def run_atheris(spec, rec):
    """coverage-guided session (thorough tier): same oracle, atheris in a forked child; absence is recorded"""
    import os
    import subprocess
    import sys
    from .. import env
    script = os.path.join(env.VERIF, 'hl7mon', 'atheris_c15.py')
    try:
        from ..runner import ensure_deps
        ensure_deps(('atheris',))
    except Exception:
        rec.count('atheris_unavailable')
        return
    try:
        p = subprocess.run([env.PYTHON, script, '-max_total_time=%d' % spec['secs'], '-rss_limit_mb=4096'],
                           env=env.child_env(), cwd=env.VERIF, stdout=subprocess.PIPE, stderr=subprocess.STDOUT,
                           timeout=spec['secs'] + 300)
        out = p.stdout.decode('utf-8', 'replace')
        rec.extra['atheris_tail'] = out[-300:]
        if 'ATHERIS-UNAVAILABLE' in out:
            rec.count('atheris_unavailable')
            return
        rec.count('atheris_sessions')
        import re
        mm = re.search(r'Done (\d+) runs', out)
        if mm:
            rec.count('atheris_executions', int(mm.group(1)))
            rec.evaluation(('atheris-session', mm.group(1)), n=int(mm.group(1)))
        for line in out.splitlines():
            if line.startswith('LEAK '):
                import json
                d = json.loads(line[5:])
                rec.evaluation(('atheris', d['text']))
                probe(d['text'], rec)
    except subprocess.TimeoutExpired:
        rec.count('atheris_timeout')


def run_shard(spec, rec):
    {'fuzz': run_fuzz, 'systematic': run_systematic, 'atheris': run_atheris, 'rows': run_rows}[spec['kind']](spec, rec)


def replay(case, rec):
    probe(case['text'], rec)


def floors(tier, m):
    out = []
    c = m['counters']
    if m['evaluations'] < 20000:
        out.append('fewer than 20000 evaluations')
    if c.get('parsed_mutants', 0) < 1000:
        out.append('fewer than 1000 mutated inputs still parsed')
    if c.get('validate_returned_report', 0) < 1000:
        out.append('validate() monitor reached too rarely')
    if c.get('truncations', 0) < 300:
        out.append('systematic truncation incomplete')
    if len(m['seen'].get('versions', ())) < len(tables.versions()) + 1:
        out.append('not every version fuzzed')
    return out
