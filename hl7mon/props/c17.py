"""C17 - explicit arguments override process-wide defaults.

Monitor: differential over configurations.  A corpus of calls that pass version, validation level and encoding characters
explicitly (or derive them from the message text) is evaluated under the baseline defaults and under every combination
of default version x default level x {standard, exotic} default delimiters; outcomes (result text, exception class,
validation report) must be identical.  Elements created beforehand are snapshotted before and after each change of the
defaults.  Wrappers on the get_default_* bindings count consultations made during fully explicit calls (diagnostic).
"""
from .. import tables, er7ref, gen, structref, treeinv

ID = 'C17'
LEVEL = 'exploration'
RULE = ('corpus of parser / constructor / encoder / validator / datatype-factory calls with explicit version, level and '
        'encoding characters for every version and both levels (valid and invalid leaf values, over-long values, datatypes '
        'whose base/complex status differs between versions) evaluated under 12 default versions x 2 default levels x 2 '
        'default delimiter sets; existing elements re-snapshotted after each change; non-trivial = the configuration differs '
        'from the baseline in at least one default; distinct = (call label, configuration)')
ASSUMPTIONS = [
    'to_er7() of a parentless element is always given its encoding characters explicitly (a call without them was not given '
    'its encoding characters and is exempt by the first sentence of the statement)',
    'Message() stamps MSH-7 with now(): every built message sets MSH-7 explicitly',
]

EXOTIC = {'FIELD': '!', 'COMPONENT': '@', 'SUBCOMPONENT': '$', 'REPETITION': '%', 'ESCAPE': '*'}
# a default set carrying the optional truncation character (accepted by set_default_encoding_chars)
EXOTIC_T = dict(EXOTIC, TRUNCATION='+')


def ec_for(v):
    return gen.full_ec(er7ref.std(v))


def plan(tier, seed):
    specs = []
    vs = tables.versions()
    for dv in vs:
        for dl in (1, 2):
            specs.append({'dv': dv, 'dl': dl, 'versions': vs if tier == 'thorough' else vs})
    return specs


def outcome(thunk):
    try:
        return ('ok', thunk())
    except Exception as e:
        return ('exc', type(e).__name__)


def report(el):
    """validation report; the warning texts quote el.to_er7(), which for a parentless element uses its own (default)
    encoding characters - a call that was not given its characters - so warnings are compared for messages only"""
    r = el.validate(return_errors=True)
    if type(el).__name__ == 'Message':
        return [str(e) for e in r.errors], [str(w) for w in r.warnings]
    return [str(e) for e in r.errors], len(r.warnings)


def corpus(v, level):
    """[(label, thunk)] - every call names its version, level and encoding characters (or reads them from the text)"""
    from hl7apy import core, parser
    from hl7apy.factories import datatype_factory
    ec = ec_for(v)
    long = 'x' * 300
    calls = []

    def add(label, fn):
        calls.append(('%s/%s/%s' % (v, level, label), fn))
    segs = tables.segments(v)
    for text in ('PID|1||123^^^A&B&C~456||DOE^JOHN', 'PID|abc', 'PID|' + long, 'NK1|1|A^B|' + long, 'EVN||2020',
                 'OBX|1|NM|X||notanumber', 'OBX|1|DT|X||20201340', 'PV1|1|I|W^1^2', 'MSA|AA|1', 'ZZZ|1|a^b&c~d'):
        if text[:3] in segs or text.startswith('Z'):
            add('parse_segment:' + text[:22],
                lambda text=text: (lambda s: (s.to_er7(ec), report(s)))(
                    parser.parse_segment(text, version=v, validation_level=level, encoding_chars=dict(ec))))
    m9 = structref.msh9_for(v, 'ADT_A01') or 'ADT^A01'
    msg = 'MSH|^~\\&|A|B|C|D|20200101||%s|1|P|%s\rEVN||20200101\rPID|1||1||A^B\rPV1|1|I\rOBX|1|NM|X||zz\rZZ1|q' % (m9, v)
    for fg in (True, False):
        add('parse_message:fg=%s' % fg,
            lambda fg=fg: (lambda m: (m.to_er7(), report(m), m.version, m.validation_level))(
                parser.parse_message(msg, validation_level=level, find_groups=fg)))
    add('parse_message:unknown-structure',
        lambda: (lambda m: (m.to_er7(), report(m)))(parser.parse_message(
            'MSH|^~\\&|A|B|C|D|20200101||XXX^Y01|1|P|%s\rPID|1||1' % v, validation_level=level)))

    def build():
        m = core.Message('ADT_A01', version=v, validation_level=level, encoding_chars=dict(ec))
        m.msh.msh_7 = '20200101'
        m.msh.msh_9 = m9
        m.msh.msh_10 = 'x'
        pid = m.add_segment('PID')
        pid.pid_5 = 'A^B'
        pid.pid_3 = 'zz'
        nk = m.add_segment('NK1')
        nk.nk1_1 = '1'
        return m.to_er7(), report(m), [e.version for e in treeinv.walk(m)][:5], \
            [e.validation_level for e in treeinv.walk(m)][:5]
    add('build_message', build)
    for dt, val in (('DT', '2020'), ('DT', 'bad'), ('NM', '1.5'), ('NM', 'x' * 20), ('ST', 'a|b'), ('ST', long),
                    ('SI', '12345'), ('TM', '12+0100'), ('FT', '\\H\\x'), ('TN', '5551234'), ('TN', 'zz'), ('CM', 'x'),
                    ('DTM', '202001011200'), ('GTS', 'x'), ('SNM', '12'), ('ID', 'A'), ('IS', 'y' * 30), ('TS', 'x'),
                    ('WD', 'w'), ('TX', long), ('GTS', long), ('IS', long), ('TN', long), ('ID', long), ('FT', long),
                    ('CM', long), ('WD', long), ('SNM', long), ('TS', long), ('NM', '1' * 17), ('SI', '12345678')):
        add('datatype_factory:%s:%s%s' % (dt, val[:6], len(val)),
            lambda dt=dt, val=val: datatype_factory(dt, val, v, level).to_er7(ec))
        add('SubComponent:%s:%s%s' % (dt, val[:6], len(val)),
            lambda dt=dt, val=val: core.SubComponent(datatype=dt, value=val, version=v, validation_level=level).to_er7(ec))
        add('Component:%s:%s%s' % (dt, val[:6], len(val)),
            lambda dt=dt, val=val: (lambda c: (setattr(c, 'value', val), c.to_er7(ec), c.datatype)[1:])(
                core.Component(datatype=dt, version=v, validation_level=level)))
        add('Component.add_subcomponent:%s' % dt,
            lambda dt=dt: (lambda c: (c.add_subcomponent('%s_1' % dt), c.to_er7(ec))[-1])(
                core.Component(datatype=dt, version=v, validation_level=level)))
        add('Field(datatype):%s:%s%s' % (dt, val[:6], len(val)),
            lambda dt=dt, val=val: (lambda f: (setattr(f, 'value', val), f.to_er7(ec), f.datatype)[1:])(
                core.Field('ZZZ_1', datatype=dt, version=v, validation_level=level)))
    # a valued field / component of a base datatype is given another datatype (TOLERANT allows it when the element holds
    # nothing structured), directly and by a value with more components than a base datatype holds: whether the current
    # datatype is a base one is a question about the element's own version
    cplx = [d for d in ('CE', 'CWE', 'CX', 'HD') if d in tables.complex_datatypes(v)]
    for dt in sorted(tables.base_datatypes(v)):
        wit = gen.witness(v, dt)

        def host():
            # (the elements sit in a message built with its delimiters given: text assigned to them is split with those)
            m = core.Message('ADT_A01', version=v, validation_level=level, encoding_chars=dict(ec))
            return m.add_segment('ZZZ')

        def retype_f(dt=dt, wit=wit):
            f = core.Field('ZZZ_1', datatype=dt, version=v, validation_level=level)
            host().add(f)
            f.value = wit
            f.datatype = cplx[0]
            return f.datatype, f.to_er7(ec), [c.name for c in f.children.list]
        add('retype_valued_field:%s' % dt, retype_f)

        def revalue_f(dt=dt, wit=wit):
            f = core.Field('ZZZ_1', datatype=dt, version=v, validation_level=level)
            host().add(f)
            f.value = wit
            f.value = 'a%sb%sc' % (ec['COMPONENT'], ec['COMPONENT'])
            return f.datatype, f.to_er7(ec), [c.name for c in f.children.list]
        add('revalue_valued_field:%s' % dt, revalue_f)

        def retype_c(dt=dt, wit=wit):
            f = core.Field('ZZZ_1', datatype=cplx[-1], version=v, validation_level=level)
            host().add(f)
            c = core.Component(datatype=dt, version=v, validation_level=level)
            f.add(c)
            c.value = wit
            c.datatype = cplx[0]
            return c.datatype, f.to_er7(ec), [x.name for x in c.children.list]
        add('retype_valued_component:%s' % dt, retype_c)

        def revalue_c(dt=dt, wit=wit):
            f = core.Field('ZZZ_1', datatype=cplx[-1], version=v, validation_level=level)
            host().add(f)
            c = core.Component(datatype=dt, version=v, validation_level=level)
            f.add(c)
            c.value = wit
            c.value = 'a%sb' % ec['SUBCOMPONENT']
            return c.datatype, f.to_er7(ec), [x.name for x in c.children.list]
        add('revalue_valued_component:%s' % dt, revalue_c)
    # datatypes that are base datatypes only in some versions (TN, CM, DTM, GTS, SNM, IS, TS ...): components and fields of
    # those types holding sub-component / component separators take the TOLERANT "more children than a base datatype
    # allows" paths, which must look the datatype up in the element's own version
    varying = ('TN', 'CM', 'DTM', 'GTS', 'SNM', 'IS', 'ID', 'TS', 'ST', 'NM')
    seen_dt = set()
    for dtc in tables.complex_datatypes(v):
        for crow in tables.components(v, dtc):
            if crow.ok and crow.card[1] != 0 and crow.datatype in varying and ('c', crow.datatype) not in seen_dt:
                seen_dt.add(('c', crow.datatype))
                add('parse_component:%s:%s' % (crow.datatype, crow.name),
                    lambda crow=crow: (lambda c: (c.to_er7(ec), c.datatype))(
                        parser.parse_component('a&b', name=crow.name, version=v, validation_level=level,
                                               encoding_chars=dict(ec))))
    for sname, rows in sorted(segs.items()):
        for r in rows or []:
            if r.ok and r.card[1] != 0 and r.datatype in varying and ('f', r.datatype) not in seen_dt:
                seen_dt.add(('f', r.datatype))
                add('parse_field:%s:%s' % (r.datatype, r.name),
                    lambda r=r: (lambda f: (f.to_er7(ec), f.datatype))(
                        parser.parse_field('a&b^c', name=r.name, version=v, validation_level=level,
                                           encoding_chars=dict(ec))))
                add('parse_segment:%s:%s' % (r.datatype, r.name),
                    lambda r=r, sname=sname: (lambda sg: (sg.to_er7(ec), report(sg)))(
                        parser.parse_segment(sname + '|' * r.num + 'a&b^c~d', version=v, validation_level=level,
                                             encoding_chars=dict(ec))))
            if r.ok and r.card[1] != 0 and r.kind == 'sequence':
                for crow in tables.components(v, r.datatype):
                    if crow.ok and crow.card[1] != 0 and crow.datatype in ('TN', 'CM', 'DTM', 'GTS', 'SNM', 'IS', 'TS') \
                            and ('fc', crow.datatype) not in seen_dt:
                        seen_dt.add(('fc', crow.datatype))
                        add('parse_field-component:%s:%s.%s' % (crow.datatype, r.name, crow.name),
                            lambda r=r, crow=crow: (lambda f: (f.to_er7(ec)))(
                                parser.parse_field('^' * (crow.num - 1) + 'a&b', name=r.name, version=v,
                                                   validation_level=level, encoding_chars=dict(ec))))
    add('parse_field', lambda: parser.parse_field('A^B&C^' + 'y' * 250, name='PID_5', version=v, validation_level=level,
                                                  encoding_chars=dict(ec)).to_er7(ec))
    add('parse_field:unnamed', lambda: parser.parse_field('A^B&C', version=v, validation_level=level,
                                                          encoding_chars=dict(ec)).to_er7(ec))
    add('parse_fields', lambda: [f.to_er7(ec) for f in parser.parse_fields('1|A^B~C|x', 'PID', version=v,
                                                                           validation_level=level,
                                                                           encoding_chars=dict(ec))])
    add('parse_component', lambda: parser.parse_component('A&B', name='CX_4', version=v, validation_level=level,
                                                          encoding_chars=dict(ec)).to_er7(ec))
    add('parse_components', lambda: [c.to_er7(ec) for c in parser.parse_components('A^B&C', 'CE', version=v,
                                                                                  validation_level=level,
                                                                                  encoding_chars=dict(ec))])
    add('parse_subcomponents', lambda: [c.to_er7(ec) for c in parser.parse_subcomponents('A&B', 'HD', version=v,
                                                                                        validation_level=level,
                                                                                        encoding_chars=dict(ec))])
    add('parse_subcomponent', lambda: parser.parse_subcomponent('A', name='HD_1', version=v,
                                                                validation_level=level).to_er7(ec))
    add('parse_segments', lambda: [s.to_er7(ec) for s in parser.parse_segments('PID|1\rPV1|1|I', version=v,
                                                                              validation_level=level,
                                                                              encoding_chars=dict(ec))])
    # text assigned to a parentless element is split with that element's own (default) characters: such a call is not
    # given its encoding characters, so parentless assignments use delimiter-free text; delimiter-bearing ones are
    # made inside a Message (build_message above, Message:nested below)
    add('Field:value', lambda: (lambda f: (setattr(f, 'value', 'abc'), f.to_er7(ec))[-1])(
        core.Field('PID_5', version=v, validation_level=level)))
    add('Field:traversal', lambda: (lambda f: (setattr(f, 'pid_5_1', 'x'), f.to_er7(ec), report(f))[1:])(
        core.Field('PID_5', version=v, validation_level=level)))
    add('Segment:children', lambda: (lambda s: (setattr(s, 'pid_1', '1'), setattr(s, 'pid_5', 'AB'), s.to_er7(ec),
                                                report(s), [c.version for c in treeinv.walk(s)])[2:])(
        core.Segment('PID', version=v, validation_level=level)))
    add('Segment:MSH-1-2', lambda: (lambda sg: (setattr(sg, 'msh_1', '|'), setattr(sg, 'msh_2', '^~\\&'),
                                                setattr(sg, 'msh_3', 'app'), sg.to_er7(ec),
                                                [c.version for c in treeinv.walk(sg)])[3:])(
        core.Segment('MSH', version=v, validation_level=level)))
    # Field._set_value special case for MSH-1 (the value holds no delimiter of any default set used here)
    add('Field:MSH_1.value', lambda: (lambda f: (setattr(f, 'value', '|'), f.to_er7(ec),
                                                 [c.version for c in treeinv.walk(f)])[1:])(
        core.Field('MSH_1', version=v, validation_level=level)))
    add('Segment:z', lambda: (lambda s: (setattr(s, 'zzz_3', 'ab'), s.to_er7(ec))[-1])(
        core.Segment('ZZZ', version=v, validation_level=level)))
    def nested():
        m = core.Message('ADT_A01', version=v, validation_level=level, encoding_chars=dict(ec))
        m.msh.msh_7 = '20200101'
        pid = m.add_segment('PID')
        pid.pid_5 = 'A^B&C'
        pid.pid_5.value = 'D^E'
        f = pid.add_field('PID_3')
        f.value = 'i^j'
        z = m.add_segment('ZZ1')
        z.zz1_2 = 'a^b&c'
        z.value = 'ZZ1|1|x^y~z'
        return m.to_er7(), report(m)
    add('Message:nested', nested)

    def traversal():
        # delimiter-bearing text assigned through elements that do not exist yet: they are reached from a message that was
        # given its characters, so this is no parentless assignment
        m = core.Message('ADT_A01', version=v, validation_level=level, encoding_chars=dict(ec))
        m.msh.msh_7 = '20200101'
        m.pid.pid_5 = 'A^B&C~D'
        m.pv1.pv1_3.value = 'W^1&2'
        m.zz1.zz1_2 = 'a^b'
        return m.to_er7(), report(m)
    add('Message:traversal-assignment', traversal)

    # base datatype objects as values (the wrapping elements are created by the library: in the element's own version)
    def dtobject_field():
        f = core.Field('ZZZ_1', datatype='ST', version=v, validation_level=level)
        f.value = datatype_factory('ST', 'abc', v, level)
        return f.to_er7(ec), [c.version for c in treeinv.walk(f)], [c.validation_level for c in treeinv.walk(f)]
    add('Field.value:datatype-object', dtobject_field)

    def dtobject_segment():
        sg = core.Segment('PID', version=v, validation_level=level)
        sg.pid_1 = datatype_factory('SI', '1', v, level)
        c = core.Component(datatype='ST', version=v, validation_level=level)
        c.value = datatype_factory('ST', 'q', v, level)
        return sg.to_er7(ec), c.to_er7(ec), [x.version for x in treeinv.walk(sg)] + [x.version for x in treeinv.walk(c)]
    add('Segment:datatype-object-by-name', dtobject_segment)

    def own_truncation():
        # a message whose MSH-2 declares four characters has no truncation character, whatever the defaults carry
        m = parser.parse_message('MSH|^~\\&|A|B|C|D|20200101||%s|1|P|%s\rPID|1||a+b#c||D' % (m9, v), validation_level=level)
        b = core.Message('ADT_A01', version=v, validation_level=level, encoding_chars=gen.full_ec(er7ref.STD))
        b.msh.msh_7 = '20200101'
        b.add_segment('PID').pid_5 = 'x+y#z'
        return m.to_er7(), sorted(m.encoding_chars), b.to_er7(), sorted(b.encoding_chars), m.to_mllp()[-12:]
    add('Message:four-encoding-characters', own_truncation)

    def z_fields():
        # locally defined fields typed with base datatypes that exist in some versions only: validated in their own version
        zs = core.Segment('ZPD', version=v, validation_level=level)
        out = []
        for dt, val in (('TN', '5551234'), ('DTM', '202001011200'), ('GTS', 'x'), ('SNM', '12'), ('TS', '2020'), ('ST', 'x'),
                        ('NM', '1')):
            if dt in tables.base_datatypes(v):
                f = core.Field('ZPD_%d' % (len(out) + 1), datatype=dt, version=v, validation_level=level)
                f.value = val
                zs.add(f)
                out.append(dt)
        return zs.to_er7(ec), out, report(zs)
    add('Segment:z-fields-with-version-specific-datatypes', z_fields)
    add('Group', lambda: (lambda g: (g.add_segment('PID'), g.to_er7(ec))[-1])(
        core.Group('ADT_A01_INSURANCE' if 'ADT_A01_INSURANCE' in tables.lib(v).GROUPS else None, version=v,
                   validation_level=level)))
    # the explicit characters spelled with the library's own objects (the constant of hl7apy.consts, which is also what
    # get_default_encoding_chars() hands out before any change): explicit all the same
    from hl7apy import consts
    own = consts.DEFAULT_ENCODING_CHARS_27 if 'TRUNCATION' in ec else consts.DEFAULT_ENCODING_CHARS
    add('parse_segment:library-constant-as-explicit-chars',
        lambda: (lambda sg: (sg.to_er7(own), sg.to_er7(ec), report(sg)))(
            parser.parse_segment('PID|1||1^^^A&B~2||D^J!K@L', version=v, validation_level=level, encoding_chars=own)))

    def build_own():
        m = core.Message('ADT_A01', version=v, validation_level=level, encoding_chars=own)
        m.msh.msh_7 = '20200101'
        m.msh.msh_10 = 'x'
        m.add_segment('PID').pid_5 = 'A^B&C'
        return m.to_er7(), m.to_er7(own), dict(m.encoding_chars)
    add('Message:library-constant-as-explicit-chars', build_own)
    add('is_base_datatype', lambda: [core.is_base_datatype(d, v) for d in ('ST', 'TN', 'CM', 'DTM', 'GTS', 'SNM', 'TS')])
    return calls


def existing_elements():
    """elements created under the baseline defaults, to be re-observed after every change of the defaults"""
    from hl7apy import core, parser
    out = []
    for v in ('2.2', '2.5', '2.7'):
        ec = ec_for(v)
        m = parser.parse_message('MSH|^~\\&|A|B|C|D|20200101||ADT^A01|1|P|%s\rEVN||20200101\rPID|1||1||A^B' % v)
        out.append(('parsed message %s' % v, m, None))
        b = core.Message('ADT_A01', version=v, encoding_chars=dict(ec), validation_level=1)
        b.msh.msh_7 = '20200101'
        out.append(('built message %s' % v, b, None))
        s = core.Segment('PID', version=v, validation_level=2)
        s.pid_5 = 'A^B'
        out.append(('segment %s' % v, s, ec))
        d = core.Segment('PID')
        d.pid_3 = 'q'
        out.append(('segment created with defaults', d, ec))
    return out


def observe(els):
    from hl7apy import consts
    # the public constants are values callers hold and pass explicitly: a change of the defaults leaves them alone
    obs = [('hl7apy.consts constants', dict(consts.DEFAULT_ENCODING_CHARS), dict(consts.DEFAULT_ENCODING_CHARS_27),
            consts.DEFAULT_VERSION)]
    for label, e, ec in els:
        obs.append((label, e.to_er7(ec) if ec else e.to_er7(), e.version, e.validation_level,
                    [(c.version, c.validation_level) for c in treeinv.walk(e)], treeinv.shape(e),
                    e.encoding_chars if ec is None else None))
    return obs


def run_shard(spec, rec):
    import hl7apy
    from hl7apy.consts import DEFAULT_ENCODING_CHARS
    base_defaults = (hl7apy.get_default_version(), hl7apy.get_default_validation_level(),
                     dict(hl7apy.get_default_encoding_chars()))
    # consultation counters on every binding site (diagnostic evidence)
    consult = {'n': 0}
    import hl7apy.core as core_mod
    import hl7apy.parser as parser_mod
    import hl7apy.factories as fact_mod
    import hl7apy.base_datatypes as bd_mod
    sites = []
    for mod in (core_mod, parser_mod, fact_mod, bd_mod):
        for fn in ('get_default_version', 'get_default_validation_level', 'get_default_encoding_chars'):
            if hasattr(mod, fn):
                orig = getattr(mod, fn)

                def wrapper(*a, _orig=orig, **k):
                    consult['n'] += 1
                    return _orig(*a, **k)
                setattr(mod, fn, wrapper)
                sites.append((mod, fn, orig))
    try:
        calls = []
        for v in spec['versions']:
            for level in (1, 2):
                calls.extend(corpus(v, level))
        base = [outcome(t) for _, t in calls]
        els = existing_elements()
        obs0 = observe(els)
        rec.count('baseline_calls', len(calls))
        rec.count('default_consultations_baseline', consult['n'])
        for dec in (None, EXOTIC, EXOTIC_T):
            cfg = {'default_version': spec['dv'], 'default_level': spec['dl'],
                   'default_ec': 'standard' if dec is None else 'exotic' if dec is EXOTIC else 'exotic-with-truncation'}
            differs = spec['dv'] != base_defaults[0] or spec['dl'] != base_defaults[1] or dec is not None
            want_ec = dict(dec) if dec else dict(base_defaults[2])
            setters = [('version', lambda: hl7apy.set_default_version(spec['dv'])),
                       ('level', lambda: hl7apy.set_default_validation_level(spec['dl'])),
                       ('encoding-chars', lambda: hl7apy.set_default_encoding_chars(dict(want_ec)))]
            k0 = (None, EXOTIC, EXOTIC_T).index(dec)
            setters = setters[k0:] + setters[:k0]        # the three settings are independent: any order of setting them
            for _, fn in setters:
                fn()
            got = (hl7apy.get_default_version(), hl7apy.get_default_validation_level(),
                   {k: x for k, x in hl7apy.get_default_encoding_chars().items() if k in want_ec})
            rec.count('default_setters_read_back')
            if got != (spec['dv'], spec['dl'], want_ec):
                rec.violation('setting-one-default-changed-another', {'label': 'setters', 'config': cfg},
                              {'order': [n for n, _ in setters], 'read_back': str(got)[:200],
                               'set': str((spec['dv'], spec['dl'], want_ec))[:200]})
            try:
                for (label, thunk), b in zip(calls, base):
                    rec.evaluation((label, spec['dv'], spec['dl'], bool(dec)), nontrivial=differs)
                    o = outcome(thunk)
                    rec.count('outcomes_compared')
                    if o != b:
                        parts = label.split('/')
                        leak = [k for k, same in (('version', spec['dv'] == base_defaults[0]),
                                                  ('level', spec['dl'] == base_defaults[1]),
                                                  ('encoding-chars', dec is None)) if not same]
                        rec.violation('explicit-call-depends-on-defaults:%s' % parts[2].split(':')[0],
                                      {'label': label, 'config': cfg}, {'baseline': str(b)[:200], 'now': str(o)[:200],
                                                                        'defaults_changed': leak})
                obs = observe(els)
                rec.count('existing_elements_reobserved', len(els))
                assert len(obs) == len(obs0)
                for a, b2 in zip(obs0, obs):
                    if a != b2:
                        rec.violation('existing-element-altered-by-defaults', {'label': a[0], 'config': cfg},
                                      {'before': str(a)[:200], 'after': str(b2)[:200]})
            finally:
                hl7apy.set_default_version(base_defaults[0])
                hl7apy.set_default_validation_level(base_defaults[1])
                hl7apy.set_default_encoding_chars(dict(base_defaults[2]))
        rec.count('default_consultations_total', consult['n'])
        rec.seen('default_versions', spec['dv'])
        rec.seen('default_levels', str(spec['dl']))
        rec.sample({'config': {'default_version': spec['dv'], 'default_level': spec['dl']},
                    'calls': [c[0] for c in calls[:3]], 'n_calls': len(calls)})
    finally:
        for mod, fn, orig in sites:
            setattr(mod, fn, orig)


def replay(case, rec):
    run_shard({'dv': case['config']['default_version'], 'dl': case['config']['default_level'],
               'versions': [case['label'].split('/')[0]] if 'label' in case and '/' in case['label'] else ['2.5']}, rec)


def floors(tier, m):
    out = []
    c = m['counters']
    if len(m['seen'].get('default_versions', ())) != len(tables.versions()) or \
            set(m['seen'].get('default_levels', ())) != {'1', '2'}:
        out.append('not every default configuration ran')
    if c.get('outcomes_compared', 0) < 50000:
        out.append('fewer than 50000 outcomes compared')
    if c.get('existing_elements_reobserved', 0) < 100:
        out.append('existing elements barely re-observed')
    return out
