"""C18 - a message profile replaces the standard structure wherever it speaks.

Monitor: profiles are plain nested tuples shaped like the standard tables, so they are synthesised by deep copy + one
edit whose consequences are known: the cardinality / datatype that elements created through parsing, traversal and the
add_* helpers must report, and the validate() verdict on instances conforming to standard-only / profile-only / both.
An identity profile must change nothing; a profile lacking the structure raises MessageProfileNotFound; the shipped
legacy file raises LegacyMessageProfile.
"""
import os

from .. import tables, gen, structref, er7ref

ID = 'C18'
LEVEL = 'exploration'
RULE = ('profiles synthesised from every usable message structure (all of 2.5, seeded sample of the others in the quick tier) by '
        'one edit in {identity, tighten a cardinality, make a child required, forbid a child, swap a field datatype} x creation '
        'path in {parse_message(message_profile=), Message(reference=) + traversal, add_segment/add_field} x instances '
        'conforming to the standard only / the profile only / both; plus missing-structure and legacy-profile cases and the '
        'shipped ITI-21 profile; non-trivial = the edit is observable for the instance (changes datatype, cardinality or '
        'verdict); distinct = (version, structure, edit kind, edited child, creation path, instance class)')
ASSUMPTIONS = [
    'edited children are top-level segments whose name occurs once in the structure (so that group finding is not in play) and '
    'leaf fields of such segments',
    'conforming instances come from structref (checked against the validator by C04/C08)',
]

EDITS = ('identity', 'tighten', 'require', 'forbid', 'datatype')


def plan(tier, seed):
    specs = []
    for v in tables.versions():
        frac = 1.0 if (v == '2.5' or tier == 'thorough') else 0.25
        specs.append({'kind': 'structures', 'version': v, 'frac': frac})
    specs.append({'kind': 'special'})
    return specs


def thaw(x):
    if isinstance(x, (tuple, list)):
        return [thaw(i) for i in x]
    return x


def freeze(x):
    if isinstance(x, list):
        return tuple(freeze(i) for i in x)
    return x


def report(m):
    r = m.validate(return_errors=True)
    return [str(e) for e in r.errors], [str(w) for w in r.warnings]


def top_targets(v, node):
    """top-level segment children with a unique name, a usable first field, not MSH"""
    places = tables.segment_name_places(node)
    return [c for c in node.children if c.kind == 'SEG' and c.name != 'MSH' and places[c.name] == 1 and c.card[1] != 0]


def instance_text(v, name, node, target=None, copies=None):
    """conforming required-only instance; the target child appears `copies` times (None = as the standard requires)"""
    rng = None
    out = []
    for c in node.children:
        if c.card[1] == 0:
            continue
        if target is not None and c.name == target:
            for k in range(copies):
                out.append(structref.conforming_segment_line(v, c.name, 'required'))
            continue
        if c.card[0] == 0:
            continue
        sub = tables.Node(name, 'MSG', (1, 1), (c,), 'sequence', True)
        for l in structref.emit(sub, rng, 'required', 1):
            out.append(structref.conforming_msh(v, name) if l.seg == 'MSH' else
                       structref.conforming_segment_line(v, l.seg, 'required'))
    return '\r'.join(out)


def edited_profile(v, name, kind, target, field=None):
    std = tables.lib(v).MESSAGES[name]
    t = thaw(std)
    info = {}
    for c in t[1]:
        if c[0] != target:
            continue
        if kind == 'tighten':
            c[2] = [c[2][0], 1]
        elif kind == 'require':
            c[2] = [1, c[2][1]]
        elif kind == 'require-two':
            c[2] = [2, c[2][1]]
        elif kind == 'forbid':
            c[2] = [0, 0]
        elif kind == 'datatype':
            for f in c[1][1]:
                if f[0] == field:
                    info['old'] = f[1][2]
                    f[1] = ['leaf', None, 'ST' if f[1][2] != 'ST' else 'ID', f[1][3], None, -1]
                    info['new'] = f[1][2]
    return {name: freeze(t)}, info


def check_structure(core, parser, v, name, node, rng, rec):
    from hl7apy.exceptions import MessageProfileNotFound, MaxChildLimitReached, HL7apyException
    row = '%s|%s' % (v, name)
    targets = top_targets(v, node)
    base_text = instance_text(v, name, node)
    # ---- identity profile
    case = {'version': v, 'structure': name, 'edit': 'identity'}
    ident = {name: freeze(thaw(tables.lib(v).MESSAGES[name]))}
    try:
        for text in [base_text] + ([instance_text(v, name, node, targets[0].name, 2)] if targets else []):
            rec.evaluation((v, name, 'identity', len(text)))
            a = parser.parse_message(text)
            b = parser.parse_message(text, message_profile=ident)
            if a.to_er7() != b.to_er7() or report(a) != report(b):
                rec.violation('identity-profile-changes-the-outcome', dict(case, text=text),
                              {'std': str(report(a))[:200], 'profile': str(report(b))[:200]}, row=row)
                return
            rec.count('identity_comparisons')
        for other in ('QQQ_Q99',):
            try:
                core.Message(other, reference=ident, version=v)
                rec.violation('missing-structure-accepted', dict(case, other=other), {}, row=row)
            except MessageProfileNotFound:
                rec.count('missing_structure_rejections')
    except Exception as e:
        rec.violation('identity-raised:%s' % type(e).__name__, case, {'exc': repr(e)[:200]}, row=row)
        return
    if not targets:
        rec.count('structures_without_target')
        return
    # ---- cardinality edits
    for kind in ('tighten', 'require', 'forbid', 'require-two'):
        cands = [c for c in targets if (kind == 'tighten' and c.card[1] == -1) or
                 (kind == 'require' and c.card[0] == 0) or (kind == 'forbid' and c.card[0] == 0) or
                 (kind == 'require-two' and c.card[1] == -1)]
        if not cands:
            continue
        c = rng.choice(cands)
        prof, _ = edited_profile(v, name, kind, c.name)
        copies = {'tighten': 2, 'require': 0, 'forbid': 1, 'require-two': 1}[kind]
        text = instance_text(v, name, node, c.name, copies)
        case = {'version': v, 'structure': name, 'edit': kind, 'child': c.name, 'text': text}
        try:
            # parsing path
            rec.evaluation((v, name, kind, c.name, 'parse'))
            s = parser.parse_message(text)
            p = parser.parse_message(text, message_profile=prof)
            rs, rp = report(s), report(p)
            rec.count('verdict_comparisons')
            if rs[0]:
                # the instance is not accepted even without a profile (e.g. structures listing a child name twice, a C04
                # finding): the edit cannot be judged on it
                rec.count('instances_not_judgeable_without_profile')
                continue
            if not any(c.name in e for e in rp[0]):
                rec.violation('profile-constraint-not-enforced-by-validate:%s' % kind, case,
                              {'profile_errors': rp[0][:3]}, row=row)
                continue
            if p.to_er7() != text:
                rec.violation('profile-parse-changes-encoding', case, {'out': p.to_er7()[-100:]}, row=row)
                continue
            # the complementary instance conforms to the profile
            good = instance_text(v, name, node, c.name, {'tighten': 1, 'require': 1, 'forbid': 0, 'require-two': 2}[kind])
            g = parser.parse_message(good, message_profile=prof)
            rg = report(g)
            if rg[0]:
                rec.violation('profile-conforming-instance-rejected:%s' % kind, dict(case, text=good),
                              {'errors': rg[0][:3]}, row=row)
                continue
            # construction path under STRICT: the profile's cardinality governs admission
            if kind in ('tighten', 'forbid'):
                rec.evaluation((v, name, kind, c.name, 'add'))
                m = core.Message(name, reference=prof, version=v, validation_level=1)
                n_ok = 0
                try:
                    for _ in range(3):
                        m.add_segment(c.name)
                        n_ok += 1
                except MaxChildLimitReached:
                    pass
                want = 1 if kind == 'tighten' else 0
                rec.count('cardinality_admission_checks')
                if n_ok != want:
                    rec.violation('profile-cardinality-not-used-by-add:%s' % kind, case,
                                  {'admitted': n_ok, 'expected': want}, row=row)
                    continue
                m0 = core.Message(name, version=v, validation_level=1)
                k0 = 0
                try:
                    for _ in range(3):
                        m0.add_segment(c.name)
                        k0 += 1
                except MaxChildLimitReached:
                    pass
                if k0 == n_ok:
                    rec.count('edits_not_observable_by_add')
            rec.seen('edit_kinds', kind)
        except Exception as e:
            rec.violation('edit-raised:%s:%s' % (kind, type(e).__name__), case, {'exc': repr(e)[:200]}, row=row)
    # ---- a child name the structure lists twice: the profile makes only the SECOND entry required
    names_top = [c.name for c in node.children]
    dups = [c for k, c in enumerate(node.children) if c.kind == 'SEG' and names_top.count(c.name) == 2 and
            names_top.index(c.name) != k and c.card[0] == 0 and node.children[names_top.index(c.name)].card[0] == 0]
    if dups:
        c2 = dups[0]
        t = thaw(tables.lib(v).MESSAGES[name])
        seen = 0
        for c in t[1]:
            if c[0] == c2.name:
                seen += 1
                if seen == 2:
                    c[2] = [1, c[2][1]]
        prof = {name: freeze(t)}
        case = {'version': v, 'structure': name, 'edit': 'require-second-occurrence', 'child': c2.name, 'text': base_text}
        try:
            rec.evaluation((v, name, 'require-second-occurrence', c2.name))
            s0 = parser.parse_message(base_text)
            if report(s0)[0]:
                rec.count('instances_not_judgeable_without_profile')
            else:
                p0 = parser.parse_message(base_text, message_profile=prof)
                rec.count('second_occurrence_checks')
                if not any(c2.name in e and 'Missing' in e for e in report(p0)[0]):
                    rec.violation('profile-constraint-not-enforced-by-validate:require-second-occurrence', case,
                                  {'profile_errors': report(p0)[0][:3]}, row=row)
                else:
                    rec.seen('edit_kinds', 'require-second-occurrence')
        except Exception as e:
            rec.violation('edit-raised:require-second-occurrence:%s' % type(e).__name__, case, {'exc': repr(e)[:200]}, row=row)
    # ---- a repeatable segment inside a group limited to two occurrences
    places = tables.segment_name_places(node)
    gcands = []
    for g in node.children:
        if g.kind != 'GRP' or g.card[1] == 0 or [x.name for x in node.children].count(g.name) != 1:
            continue
        for k, sgm in enumerate(g.children):
            if k > 0 and sgm.kind == 'SEG' and sgm.card[1] == -1 and places[sgm.name] == 1 and \
                    all(x.kind == 'SEG' for x in g.children):
                gcands.append((g, sgm))
    if gcands:
        g, sgm = rng.choice(gcands)
        t = thaw(tables.lib(v).MESSAGES[name])
        for c in t[1]:
            if c[0] == g.name:
                for cc in c[1][1]:
                    if cc[0] == sgm.name:
                        cc[2] = [cc[2][0], 2]
        prof = {name: freeze(t)}

        def text_with(copies):
            out = []
            for c in node.children:
                if c.card[1] == 0 or (c.card[0] == 0 and c is not g):
                    continue
                if c is g:
                    for m_ in g.children:
                        if m_ is sgm:
                            out += [structref.conforming_segment_line(v, sgm.name, 'required')] * copies
                        elif m_.card[0] >= 1 or m_ is g.children[0]:
                            out.append(structref.conforming_segment_line(v, m_.name, 'required'))
                    continue
                sub = tables.Node(name, 'MSG', (1, 1), (c,), 'sequence', True)
                for l in structref.emit(sub, None, 'required', 1):
                    out.append(structref.conforming_msh(v, name) if l.seg == 'MSH' else
                               structref.conforming_segment_line(v, l.seg, 'required'))
            return '\r'.join(out)
        case = {'version': v, 'structure': name, 'edit': 'limit-two-in-group', 'group': g.name, 'child': sgm.name}
        try:
            rec.evaluation((v, name, 'limit-two-in-group', g.name, sgm.name))
            two, three = text_with(2), text_with(3)
            s2 = parser.parse_message(two)
            if report(s2)[0]:
                rec.count('instances_not_judgeable_without_profile')
            else:
                p2 = parser.parse_message(two, message_profile=prof)
                rec.count('limit_two_in_group_checks')
                if structref.tree_of(p2) != structref.tree_of(s2):
                    rec.violation('profile-maximum-changes-the-group-tree', dict(case, text=two),
                                  {'standard': str(structref.tree_of(s2))[-200:], 'profile': str(structref.tree_of(p2))[-200:]},
                                  row=row)
                elif report(p2)[0]:
                    rec.violation('profile-conforming-instance-rejected:limit-two-in-group', dict(case, text=two),
                                  {'errors': report(p2)[0][:3]}, row=row)
                else:
                    p3 = parser.parse_message(three, message_profile=prof)
                    if not any(sgm.name in e for e in report(p3)[0]):
                        rec.violation('profile-constraint-not-enforced-by-validate:limit-two-in-group',
                                      dict(case, text=three), {'profile_errors': report(p3)[0][:3]}, row=row)
                    else:
                        rec.seen('edit_kinds', 'limit-two-in-group')
        except Exception as e:
            rec.violation('edit-raised:limit-two-in-group:%s' % type(e).__name__, case, {'exc': repr(e)[:200]}, row=row)
    # ---- datatype edit on a leaf field of a target segment
    dcands = []
    for c in targets:
        for r in gen.usable_rows(v, c.name):
            if r.kind == 'leaf' and r.datatype in ('IS', 'ID', 'ST') and r.card[0] == 0:
                dcands.append((c, r))
    if dcands:
        c, r = rng.choice(dcands)
        prof, info = edited_profile(v, name, 'datatype', c.name, r.name)
        case = {'version': v, 'structure': name, 'edit': 'datatype', 'child': c.name, 'field': r.name, 'info': info}
        try:
            line = c.name + '|' * r.num + 'A'
            text = instance_text(v, name, node, c.name, 0)
            # place the target line at its structural position by rebuilding with a custom line
            text = instance_text_with_line(v, name, node, c.name, line)
            for path in ('parse', 'traversal', 'add', 'assign-text', 'assign-text-custom-delimiters', 'copy-proxy',
                         'assign-message-text', 'assign-bare-segment-name'):
                rec.evaluation((v, name, 'datatype', r.name, path))
                if path in ('assign-text', 'assign-text-custom-delimiters', 'copy-proxy'):
                    # a segment assigned as ER7 text (or copied from another message) is a child created by parsing
                    ec = None
                    ltxt = line
                    if path == 'assign-text-custom-delimiters':
                        ec = {'FIELD': '#', 'COMPONENT': '@', 'SUBCOMPONENT': '$', 'REPETITION': '%', 'ESCAPE': '*'}
                        ltxt = line.replace('|', '#')
                    m = core.Message(name, reference=prof, version=v, encoding_chars=ec)
                    if path == 'copy-proxy':
                        src = core.Message(name, reference=prof, version=v)
                        setattr(src, c.name.lower(), ltxt)
                        setattr(m, c.name.lower(), getattr(src, c.name.lower()))
                    else:
                        setattr(m, c.name.lower(), ltxt)
                    m.msh.msh_7 = '20200101'
                    f = getattr(getattr(m, c.name.lower()), r.name.lower())[0]
                    rec.count('datatype_observations')
                    if f.datatype != info['new']:
                        rec.violation('profile-datatype-not-used:%s' % path, case, {'got': f.datatype}, row=row)
                        break
                    continue
                if path == 'assign-bare-segment-name':
                    # the text of an empty segment is its bare name (what to_er7() of an empty segment gives)
                    m = core.Message(name, reference=prof, version=v)
                    setattr(m, c.name.lower(), c.name)
                    setattr(getattr(m, c.name.lower()), r.name.lower(), 'A')
                    f = getattr(getattr(m, c.name.lower()), r.name.lower())[0]
                elif path == 'parse':
                    m = parser.parse_message(text, message_profile=prof)
                    f = getattr(getattr(m, c.name.lower()), r.name.lower())[0]
                elif path == 'assign-message-text':
                    # the whole ER7 text assigned to a message created with the profile
                    # (created with the delimiters the text declares: the library refuses a text declaring others)
                    m = core.Message(name, reference=prof, version=v, encoding_chars=gen.full_ec(er7ref.STD))
                    m.value = text
                    f = getattr(getattr(m, c.name.lower()), r.name.lower())[0]
                elif path == 'traversal':
                    m = core.Message(name, reference=prof, version=v)
                    setattr(getattr(m, c.name.lower()), r.name.lower(), 'A')
                    f = getattr(getattr(m, c.name.lower()), r.name.lower())[0]
                else:
                    m = core.Message(name, reference=prof, version=v)
                    f = m.add_segment(c.name).add_field(r.name)
                    f.value = 'A'
                rec.count('datatype_observations')
                if f.datatype != info['new']:
                    rec.violation('profile-datatype-not-used:%s' % path, case, {'got': f.datatype}, row=row)
                    break
                errs = [e for e in report(m)[0] if r.name in e]
                if errs:
                    rec.violation('profile-datatype-rejected-by-validate:%s' % path, case, {'errors': errs[:2]}, row=row)
                    break
            else:
                rec.seen('edit_kinds', 'datatype')
                # an element built to the standard datatype is judged against the profile
                m = parser.parse_message(text, message_profile=prof)
                seg = getattr(m, c.name.lower())[0]
                old = core.Field(r.name, version=v)
                old.value = 'A'
                if old.datatype != info['new']:
                    seg.children.remove(getattr(seg, r.name.lower())[0])
                    seg.add(old)
                    errs = [e for e in report(m)[0] if r.name in e and 'Datatype' in e]
                    rec.count('standard_datatype_under_profile_checks')
                    if not errs:
                        rec.violation('standard-datatype-accepted-under-profile', case, {'errors': report(m)[0][:3]},
                                      row=row)
        except Exception as e:
            rec.violation('edit-raised:datatype:%s' % type(e).__name__, case, {'exc': repr(e)[:200]}, row=row)


def instance_text_with_line(v, name, node, target, line):
    out = []
    for c in node.children:
        if c.card[1] == 0:
            continue
        if c.name == target:
            out.append(line)
            continue
        if c.card[0] == 0:
            continue
        sub = tables.Node(name, 'MSG', (1, 1), (c,), 'sequence', True)
        for l in structref.emit(sub, None, 'required', 1):
            out.append(structref.conforming_msh(v, name) if l.seg == 'MSH' else
                       structref.conforming_segment_line(v, l.seg, 'required'))
    return '\r'.join(out)


def check_local_segment(core, parser, v, name, node, rng, rec):
    """the profile restates the standard structure and describes one local segment (ZPD: ZPD-1 NM once and required, ZPD-2 of a
    composite datatype at most twice) as the last child of the message: parsing, add_segment / add_field, traversal and
    validate() take the segment from the profile - also when it arrives while a group is still open"""
    from hl7apy.exceptions import HL7apyException
    row = '%s|%s' % (v, name)
    std = thaw(tables.lib(v).MESSAGES[name])
    msh = [c for c in std[1] if c[0] == 'MSH'][0]
    cref = [f[1] for f in msh[1][1] if f[1][0] == 'sequence'][0]
    cdt = cref[2]
    zpd = ['sequence', [['ZPD_1', ['leaf', None, 'NM', 'VISIT_COUNT', None, 4], [1, 1], 'FIE'],
                        ['ZPD_2', ['sequence', cref[1], cdt, 'LOCAL_IDENTIFIERS', None, 60], [0, 2], 'FIE']]]
    profs = {}
    for card in ((0, 1), (1, 1)):
        t = thaw(tables.lib(v).MESSAGES[name])
        t[1].append(['ZPD', zpd, list(card), 'SEG'])
        profs[card] = {name: freeze(t)}
    zline = 'ZPD|12|' + structref.required_text(v, 'sequence', cdt, tables.components(v, cdt), 1)
    lines_all = ['%s' % (structref.conforming_msh(v, name) if l.seg == 'MSH' else
                         structref.conforming_segment_line(v, l.seg, 'required'))
                 for l in structref.emit(node, rng, 'all', 1)]
    texts = {'required-only': instance_text(v, name, node)}
    if structref.unambiguous(v, node, structref.emit(node, rng, 'all', 1)):
        texts['every-child'] = '\r'.join(lines_all)       # (the last group of the structure is still open when ZPD arrives)
    for how, base in sorted(texts.items()):
        case = {'version': v, 'structure': name, 'edit': 'local-segment', 'instance': how, 'text': base + '\r' + zline}
        rec.evaluation((v, name, 'local-segment', how))
        try:
            for level in (1, 2):
                try:
                    b0 = parser.parse_message(base, message_profile=profs[(0, 1)], validation_level=level)
                except HL7apyException:
                    rec.count('instances_not_judgeable_without_profile')
                    continue
                if report(b0)[0]:
                    rec.count('instances_not_judgeable_without_profile')
                    continue
                p = parser.parse_message(base + '\r' + zline, message_profile=profs[(0, 1)], validation_level=level)
                rec.count('local_segment_parses')
                top = [c.name for c in p.children.list]
                if top[-1:] != ['ZPD']:
                    rec.violation('local-segment-of-the-profile-not-placed-where-the-profile-puts-it', dict(case, level=level),
                                  {'top_level_children': top[-4:]}, row=row)
                    continue
                z = p.children.list[-1]
                got = [(f.name, f.datatype) for f in z.children.list]
                if got != [('ZPD_1', 'NM'), ('ZPD_2', cdt)]:
                    rec.violation('local-segment-fields-not-taken-from-the-profile:parse', dict(case, level=level),
                                  {'fields': got, 'expected': [('ZPD_1', 'NM'), ('ZPD_2', cdt)]}, row=row)
                    continue
                if report(p)[0]:
                    rec.violation('profile-conforming-instance-rejected:local-segment', dict(case, level=level),
                                  {'errors': report(p)[0][:3]}, row=row)
                    continue
                if p.to_er7() != base + '\r' + zline:
                    rec.violation('profile-parse-changes-encoding', dict(case, level=level), {'out': p.to_er7()[-60:]}, row=row)
                    continue
                # required by the profile and absent: validate() says so
                q = parser.parse_message(base, message_profile=profs[(1, 1)], validation_level=2)
                if not any('ZPD' in e for e in report(q)[0]):
                    rec.violation('profile-constraint-not-enforced-by-validate:local-segment-required', dict(case, level=level),
                                  {'profile_errors': report(q)[0][:3]}, row=row)
                    continue
                rec.seen('edit_kinds', 'local-segment')
        except Exception as e:
            rec.violation('edit-raised:local-segment:%s' % type(e).__name__, case, {'exc': repr(e)[:200]}, row=row)
    # construction: add_segment / add_field, traversal, assignment
    case = {'version': v, 'structure': name, 'edit': 'local-segment', 'instance': 'built'}
    for level in (1, 2):
        for how in ('add', 'traversal'):
            rec.evaluation((v, name, 'local-segment', how, level))
            try:
                m = core.Message(name, reference=profs[(0, 1)], version=v, validation_level=level)
                if how == 'add':
                    z = m.add_segment('ZPD')
                    f1 = z.add_field('ZPD_1')
                    f2 = z.add_field('ZPD_2')
                    got = [(f1.name, f1.datatype, f1.long_name), (f2.name, f2.datatype, f2.long_name)]
                else:
                    m.zpd.zpd_2 = structref.required_text(v, 'sequence', cdt, tables.components(v, cdt), 1)
                    m.zpd.visit_count = '12'
                    z = m.zpd[0]
                    got = [(f.name, f.datatype, f.long_name) for f in sorted(z.children.list, key=lambda f: f.name)]
                rec.count('local_segment_constructions')
                want = [('ZPD_1', 'NM', 'VISIT_COUNT'), ('ZPD_2', cdt, 'LOCAL_IDENTIFIERS')]
                if got != want:
                    rec.violation('local-segment-fields-not-taken-from-the-profile:%s' % how, dict(case, level=level, how=how),
                                  {'fields': got, 'expected': want}, row=row)
                    continue
                if level == 1:
                    # STRICT admission follows the profile: a text is no NM, a third ZPD-2 is one too many
                    refused = []
                    for what, fn in (('text-in-NM', lambda: setattr(z, 'zpd_1', 'twelve')),
                                     ('third-ZPD_2', lambda: [z.add_field('ZPD_2') for _ in range(2)])):
                        try:
                            fn()
                        except (HL7apyException, ValueError):
                            refused.append(what)
                    if refused != ['text-in-NM', 'third-ZPD_2']:
                        rec.violation('local-segment-constraints-not-used-by-STRICT', dict(case, level=level, how=how),
                                      {'refused': refused}, row=row)
            except Exception as e:
                rec.violation('edit-raised:local-segment:%s' % type(e).__name__, dict(case, level=level, how=how),
                              {'exc': repr(e)[:200]}, row=row)


def check_inside_component(core, parser, v, name, node, rng, rec):
    """the profile forbids (0, 0) the second sub-component of a composite component of one field: under STRICT it is refused
    whichever way the component is reached - text assigned to the component, to the field, traversal, add_subcomponent"""
    from hl7apy.exceptions import HL7apyException
    row = '%s|%s' % (v, name)
    t = thaw(tables.lib(v).MESSAGES[name])
    tnames = set(c.name for c in top_targets(v, node))
    found = None
    for c in t[1]:
        if c[0] not in tnames or c[3] != 'SEG':
            continue
        for f in c[1][1]:
            if f[1][0] != 'sequence' or f[2][1] == 0:
                continue
            for k, comp in enumerate(f[1][1]):
                subs = comp[1][1] if comp[1][0] == 'sequence' else []
                if comp[2][1] != 0 and len(subs) >= 2 and all(x[1][0] == 'leaf' and x[2][1] != 0 for x in subs[:2]):
                    found = (c, f, k, comp, subs)
                    break
            if found:
                break
        if found:
            break
    if not found:
        rec.count('structures_without_composite_component')
        return
    c, f, k, comp, subs = found
    w1, w2 = gen.witness(v, subs[0][1][2]), gen.witness(v, subs[1][1][2])
    subs[1][2] = [0, 0]
    prof = {name: freeze(t)}
    sname, fname, cname, s2name = c[0], f[0], comp[0], subs[1][0]
    text = w1 + '&' + w2

    def field_of(reference):
        m = core.Message(name, reference=reference, version=v, validation_level=1)
        seg = m.add_segment(sname)
        return seg, seg.add_field(fname)

    ways = {
        'text-assigned-to-the-component': lambda r: setattr(field_of(r)[1], cname.lower(), text),
        'text-assigned-to-the-field': lambda r: setattr(field_of(r)[1], 'value', '^' * k + text),
        'traversal': lambda r: setattr(getattr(field_of(r)[1], cname.lower()), s2name.lower(), w2),
        'add_subcomponent': lambda r: field_of(r)[1].add_component(cname).add_subcomponent(s2name),
        'long-name-of-the-component': lambda r: setattr(field_of(r)[1], comp[1][3].lower(), text) if comp[1][3] else None,
        'component-copied-from-a-standard-field': lambda r: setattr(
            field_of(r)[1], cname.lower(), getattr(_valued(core, v, fname, cname, text), cname.lower())),
    }
    case0 = {'version': v, 'structure': name, 'edit': 'forbid-inside-component', 'segment': sname, 'field': fname,
             'component': cname, 'forbidden': s2name}
    for how, fn in sorted(ways.items()):
        case = dict(case0, how=how)
        rec.evaluation((v, name, 'forbid-inside-component', how))
        if how == 'long-name-of-the-component' and not comp[1][3]:
            continue
        try:
            fn(None)            # the standard structure accepts it: the edit is observable
        except Exception:
            rec.count('edits_not_observable_inside_component')
            continue
        try:
            fn(prof)
            rec.violation('profile-constraint-inside-a-component-not-used-by-STRICT', case, {'accepted': text}, row=row)
        except HL7apyException:
            rec.count('inside_component_refusals')
            rec.seen('edit_kinds', 'forbid-inside-component')
        except Exception as e:
            rec.violation('edit-raised:forbid-inside-component:%s' % type(e).__name__, case, {'exc': repr(e)[:200]}, row=row)
    # what the profile allows is accepted
    try:
        setattr(field_of(prof)[1], cname.lower(), w1)
        rec.count('inside_component_allowed_values_accepted')
    except Exception as e:
        rec.violation('profile-conforming-value-refused:forbid-inside-component', case0, {'exc': repr(e)[:200]}, row=row)


def _valued(core, v, fname, cname, text):
    f = core.Field(fname, version=v, validation_level=2)
    setattr(f, cname.lower(), text)
    return f


def run_structures(spec, rec):
    from hl7apy import core, parser
    v = spec['version']
    rng = gen.rng_for(spec['seed'], 'c18', v)
    msgs = tables.messages(v)
    n = 0
    for name in sorted(msgs):
        node = msgs[name]
        if structref.unusable_reason(v, node) or structref.msh9_for(v, name) is None:
            rec.count('structures_skipped')
            continue
        if rng.random() > spec['frac']:
            continue
        n += 1
        rec.count('structures_used')
        check_structure(core, parser, v, name, node, rng, rec)
        if n % 3 == 1:
            check_local_segment(core, parser, v, name, node, rng, rec)
        if n % 3 == 2:
            check_inside_component(core, parser, v, name, node, rng, rec)
        if n == 1:
            rec.sample({'version': v, 'structure': name, 'edits': list(EDITS)})
    rec.seen('versions', v)


def run_special(spec, rec):
    import hl7apy
    from hl7apy import core, parser
    from hl7apy.exceptions import LegacyMessageProfile, MessageProfileNotFound
    from .. import env
    base = os.path.join(env.REPO, 'tests', 'profiles')
    rec.evaluation(('legacy', 'old_pharm_h4'))
    try:
        legacy = hl7apy.load_message_profile(os.path.join(base, 'old_pharm_h4'))
        try:
            core.Message('RAS_O17', reference=legacy, version='2.5')
            rec.violation('legacy-profile-accepted', {'profile': 'old_pharm_h4'}, {})
        except LegacyMessageProfile:
            rec.count('legacy_rejections')
        # the same profile handed to the parser, whatever its other arguments
        text = 'MSH|^~\\&|A|B|C|D|20200101||RAS^O17^RAS_O17|1|P|2.5\rPID|1||1||A^B'
        for kw in ({}, {'find_groups': False}, {'validation_level': 1}, {'validation_level': 2, 'force_validation': True},
                   {'validation_level': 1, 'find_groups': False}):
            rec.evaluation(('legacy', 'parse_message', tuple(sorted(kw.items()))))
            try:
                parser.parse_message(text, message_profile=legacy, **kw)
                rec.violation('legacy-profile-accepted', {'profile': 'old_pharm_h4', 'by': 'parse_message', 'kwargs': kw}, {})
            except LegacyMessageProfile:
                rec.count('legacy_rejections')
                rec.count('legacy_rejections_by_the_parser')
            except Exception as e:
                rec.violation('legacy-case-raised:%s' % type(e).__name__,
                              {'profile': 'old_pharm_h4', 'by': 'parse_message', 'kwargs': kw}, {'exc': repr(e)[:200]})
    except Exception as e:
        rec.violation('legacy-case-raised:%s' % type(e).__name__, {'profile': 'old_pharm_h4'}, {'exc': repr(e)[:200]})
    rec.evaluation(('legacy', 'old_pharm_h4_win'))
    try:
        legacy = hl7apy.load_message_profile(os.path.join(base, 'old_pharm_h4_win'))
        try:
            core.Message('RAS_O17', reference=legacy, version='2.5')
            rec.violation('legacy-profile-accepted', {'profile': 'old_pharm_h4_win'}, {})
        except LegacyMessageProfile:
            rec.count('legacy_rejections')
    except Exception:
        rec.count('legacy_file_unloadable_on_this_python')     # pickle written on another platform; not judged
    mp = hl7apy.load_message_profile(os.path.join(base, 'iti_21'))
    rec.evaluation(('missing', 'iti_21'))
    txt = 'MSH|^~\\&|A|B|C|D|20200101||ADT^A01^ADT_A01|1|P|2.5\rEVN||20200101\rPID|1||1||A^B\rPV1|1|I'
    try:
        parser.parse_message(txt, message_profile=mp)
        rec.violation('missing-structure-accepted', {'profile': 'iti_21', 'text': txt}, {})
    except MessageProfileNotFound:
        rec.count('missing_structure_rejections')
    except Exception as e:
        rec.violation('missing-structure-raised:%s' % type(e).__name__, {'profile': 'iti_21'}, {'exc': repr(e)[:200]})
    # ITI-21: profile children take the profile's datatypes/cardinalities
    rec.evaluation(('iti21', 'datatypes'))
    try:
        m = core.Message('RSP_K21', reference=mp, version='2.5')
        std = core.Message('RSP_K21', version='2.5')
        diffs = 0
        for child, ref in mp['RSP_K21'][1][:0] or []:
            pass
        ref = mp['RSP_K21']
        for c in ref[1]:
            if c[3] == 'SEG' and c[0] != 'MSH':
                if tuple(m.repetitions[c[0]]) != tuple(c[2]):
                    rec.violation('profile-cardinality-not-reported', {'profile': 'iti_21', 'child': c[0]},
                                  {'got': m.repetitions[c[0]], 'want': c[2]})
                if tuple(c[2]) != tuple(std.repetitions.get(c[0], ())):
                    diffs += 1
        rec.count('iti21_cardinality_checks', len(ref[1]))
        rec.count('iti21_children_differing_from_standard', diffs)
    except Exception as e:
        rec.violation('iti21-raised:%s' % type(e).__name__, {'profile': 'iti_21'}, {'exc': repr(e)[:200]})
    rec.sample({'kind': 'special', 'cases': ['legacy old_pharm_h4', 'missing structure', 'ITI-21 cardinalities']})


def run_shard(spec, rec):
    {'structures': run_structures, 'special': run_special}[spec['kind']](spec, rec)


def replay(case, rec):
    from hl7apy import core, parser
    if 'structure' not in case:
        run_special({}, rec)
        return
    v, name = case['version'], case['structure']
    for s in range(10):
        check_structure(core, parser, v, name, tables.messages(v)[name], gen.rng_for(s, 'replay'), rec)


def floors(tier, m):
    out = []
    c = m['counters']
    if c.get('structures_used', 0) < 200:
        out.append('fewer than 200 structures')
    if set(m['seen'].get('edit_kinds', ())) != {'tighten', 'require', 'forbid', 'datatype', 'limit-two-in-group', 'require-two', 'require-second-occurrence',
                                                         'local-segment', 'forbid-inside-component'}:
        out.append('edit kinds judged: %s' % sorted(m['seen'].get('edit_kinds', ())))
    if c.get('identity_comparisons', 0) < 200 or c.get('verdict_comparisons', 0) < 200 or \
            c.get('datatype_observations', 0) < 300:
        out.append('too few comparisons: %s' % {k: c.get(k) for k in ('identity_comparisons', 'verdict_comparisons',
                                                                        'datatype_observations')})
    if c.get('legacy_rejections_by_the_parser', 0) < 5 or c.get('legacy_rejections', 0) < 1 or c.get('missing_structure_rejections', 0) < 10:
        out.append('exception clauses barely exercised')
    return out
