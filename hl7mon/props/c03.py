"""C03 - parsing never silently drops or reorders content.

Monitor: conservation with unique values.  Every leaf of a generated message is a unique token, so loss, duplication
and reordering are each directly attributable; the oracle compares the reference tokenisation of input and output:
segment-name sequence globally and non-empty leaf sequence per segment.  An HL7apyException is an accepted outcome.
"""
import collections

from .. import tables, er7ref, gen, structref

ID = 'C03'
LEVEL = 'exploration'
RULE = ('messages = MSH + lines drawn from {segments of the declared structure, segments of other message types, Z-names, '
        'repeated lines, fields beyond the defined count, fields at numbers the table skips, components beyond the datatype, '
        'sub-components under base types}, every leaf a unique token, all versions, find_groups on and off, TOLERANT; '
        'non-trivial = at least one line besides MSH and the conservation comparison ran; distinct = (version, find_groups, '
        'line-kind sequence, per-line shape)')
ASSUMPTIONS = [
    'er7ref tokenizer is correct; tokens are alphanumeric so no escaping is involved',
    'an HL7apyException is a surfaced outcome (its type is C15 business)',
]

KINDS = ('in', 'other', 'z', 'repeat', 'beyond', 'gap', 'compbeyond', 'subbase')


def plan(tier, seed):
    n = 700 if tier == 'quick' else 9000
    return [{'version': v, 'n': n} for v in tables.versions()] + [{'version': v, 'n': n, 'zmsg': True}
                                                                  for v in tables.versions()[::3]] + \
        [{'kind': 'profile', 'version': v, 'n': n // 10} for v in tables.versions()]


def make_line(rng, v, seg, kind, toks, ec):
    rows = tables.segments(v).get(seg) or []
    f = ec['FIELD']
    if kind in ('z',) or not rows:
        n = rng.randint(1, 5)
        vals = [toks.next() if rng.random() < 0.8 else '' for _ in range(n)]
        vals[-1] = toks.next()
        if rng.random() < 0.3:
            vals[0] = toks.next() + '^' + toks.next() + '&' + toks.next()
        if rng.random() < 0.25 and n > 1:
            vals[0] = '   ' + (vals[0] if vals[0][:1].isalnum() else toks.next()) + ' '   # blanks around the text are data
        if rng.random() < 0.3:
            # the HL7 explicit null: a field whose whole text is two double quotes is content like any other
            vals[rng.randrange(n)] = rng.choice(['""', '""', '"'])
        return f.join([seg] + vals)
    if kind == 'beyond':
        top = max(r.num for r in rows if r.num)
        line, _ = gen.segment_line(rng, v, seg, ec, toks=toks, max_fields=2)
        cur = line.count(f)
        extra = rng.randint(1, 4)
        pad = [''] * (top - cur) + [toks.next() for _ in range(extra)]
        if rng.random() < 0.5:
            pad[-1] = toks.next() + '^^' + toks.next() + '^^^' + toks.next()      # components with gaps, beyond the table
        return line + f + f.join(pad)
    if kind == 'gap':
        gaps = tables.gap_numbers(v, seg)
        if gaps:
            g = rng.choice(gaps)
            top = max(r.num for r in rows if r.num)
            vals = {g: toks.next()}
            for r in rng.sample(gen.usable_rows(v, seg), min(2, len(gen.usable_rows(v, seg)))):
                vals[r.num] = toks.next()
            m = max(vals)
            return f.join([seg] + [vals.get(i, '') for i in range(1, m + 1)])
    if kind == 'compbeyond':
        vr = [r for r in rows if r.ok and r.datatype == 'varies' and r.num and r.card[1] != 0]
        if vr and rng.random() < 0.6:
            # a `varies` field holds as many components as the sender writes: ten and more
            r = rng.choice(vr)
            return f.join([seg] + [''] * (r.num - 1) + ['^'.join(toks.next() for _ in range(rng.randint(10, 14)))])
        cands = [r for r in gen.usable_rows(v, seg) if r.kind == 'sequence']
        if cands:
            r = rng.choice(cands)
            ncomp = len(tables.components(v, r.datatype))
            comps = [toks.next() if rng.random() < 0.5 else '' for _ in range(ncomp)] + \
                    [toks.next() for _ in range(rng.randint(1, 3))]
            return f.join([seg] + [''] * (r.num - 1) + ['^'.join(comps)])
    if kind == 'subbase':
        cands = [r for r in gen.usable_rows(v, seg) if r.kind == 'leaf' and r.datatype != 'varies']
        if cands:
            r = rng.choice(cands)
            val = '&'.join(toks.next() for _ in range(rng.randint(2, 3)))
            if rng.random() < 0.5:
                val = toks.next() + '^' + val
            return f.join([seg] + [''] * (r.num - 1) + [val])
    line, _ = gen.segment_line(rng, v, seg, ec, toks=toks, max_fields=4)
    if rng.random() < 0.2 and seg != 'MSH':
        # blanks in front of the first field's text (and behind a text that is not the end of the line) are data
        parts = line.split(f)
        if len(parts) > 2 and parts[1] and parts[1][0].isalnum():     # (a leaf of blanks only is not judged)
            parts[1] = rng.choice(['  ', ' ', '\t']) + parts[1] + rng.choice(['', ' '])
            line = f.join(parts)
    if rng.random() < 0.25 and seg != 'MSH':
        # the HL7 explicit null ("") in a field the line leaves empty, or in one more field at its end
        parts = line.split(f)
        # (not at a withdrawn field number: what happens to a value there is the known finding of its own kind)
        # (nor at a row the generators never populate - malformed rows, maximum 0 - which have findings of their own)
        usable = {r.num for r in gen.usable_rows(v, seg)}
        top = max([r.num for r in rows if r.num] or [0])
        empty = [i for i in range(1, len(parts)) if parts[i] == '' and (i in usable or i > top)]
        if empty:
            parts[rng.choice(empty)] = '""'
        elif len(parts) in usable or len(parts) > top:
            parts.append('""')
        line = f.join(parts)
        toks.nulls = getattr(toks, 'nulls', 0) + 1
    return line


class HashTokens(object):
    """tokens holding '#': plain data in a message whose MSH-2 declares no truncation character"""

    def __init__(self, toks):
        self.toks = toks

    def next(self):
        return self.toks.next() + '#t'


def ec_of(v, text):
    """the standard set of the version, without TRUNCATION when MSH-2 of `text` has four characters"""
    ec = dict(er7ref.std(v))
    if 'TRUNCATION' in ec and text[8:9] == ec['FIELD']:
        del ec['TRUNCATION']
    return ec


def build(rng, v, toks, zmsg=False):
    ec = gen.full_ec(er7ref.std(v))
    if 'TRUNCATION' in ec and rng.random() < 0.5:
        # v2.7+: messages with and without a truncation character alternate in the same process
        del ec['TRUNCATION']
        toks = HashTokens(toks)
    msgs = tables.messages(v)
    names = [n for n in sorted(msgs) if structref.usable(v, msgs[n]) and structref.msh9_for(v, n)]
    allsegs = [s for s, rows in sorted(tables.segments(v).items()) if rows and s != 'MSH']
    if zmsg:
        name = 'Z%s_Z%s' % (rng.choice('AB1'), rng.choice('01Z') + rng.choice('12'))
        name = 'ZZ%s_Z%s' % (rng.choice('AB1'), rng.choice('0Z') + rng.choice('12'))
        msh9 = '%s^%s^%s' % (name[:3], name[4:], name) if len(tables.components(v, 'MSG')) >= 3 else None
        if msh9 is None:
            return None
        lines = [structref.Line('MSH', ())]
        instruct = set()
    else:
        name = rng.choice(names)
        msh9 = None
        node = msgs[name]
        lines = structref.emit(node, rng, rng.choice(['required', 'random', 'random']), 2)
        instruct = set(tables.segment_name_places(node))
    out = [structref.msh_line(v, name, ec, msh9=msh9)]
    kinds = ['msh']
    body = [(l.seg, 'in') for l in lines[1:]]
    # inject hostile lines
    for _ in range(rng.randint(0, 4) if not zmsg else rng.randint(1, 5)):
        k = rng.choice(KINDS[1:])
        pos = rng.randint(0, len(body))
        if k == 'other':
            cand = [s for s in allsegs if s not in instruct]
            seg = rng.choice(cand)
        elif k == 'z':
            seg = 'Z' + rng.choice('ABZ019') + rng.choice('ABZ019')
        elif k == 'repeat' and body:
            seg = rng.choice(body)[0]
        elif k == 'gap':
            cand = [s for s in allsegs if tables.gap_numbers(v, s)]
            seg = rng.choice(cand) if cand else rng.choice(allsegs)
        else:
            seg = rng.choice(sorted(instruct - {'MSH'}) or allsegs)
        body.insert(pos, (seg, k))
    for seg, k in body:
        out.append(make_line(rng, v, seg, k if k != 'in' else rng.choice(['in', 'in', 'in', 'beyond', 'compbeyond',
                                                                         'subbase']), toks, ec))
        kinds.append(k)
    return '\r'.join(out), name, kinds, instruct


def compare(text, out, ec):
    """-> None when conserved, else (cause, detail)"""
    _, a = er7ref.tokenize_message(text, ec)
    _, b = er7ref.tokenize_message(out, ec)
    an, bn = [x[0] for x in a], [x[0] for x in b]
    if an != bn:
        return 'segments', {'in': an, 'out': bn}
    for (n1, f1), (n2, f2) in zip(a, b):
        l1 = [v for _, v in er7ref.leaves(f1[2:] if n1 == 'MSH' else f1)]
        l2 = [v for _, v in er7ref.leaves(f2[2:] if n2 == 'MSH' else f2)]
        if l1 != l2:
            return 'leaves', {'segment': n1, 'in': l1, 'out': l2,
                              'in_positions': [p for p, _ in er7ref.leaves(f1)]}
        # same leaves in the same order: each is still at the same repetition / component / sub-component of its field (an
        # empty component dropped from `A^^C` moves C)
        p1 = [p[1:] for p, _ in er7ref.leaves(f1[2:] if n1 == 'MSH' else f1)]
        p2 = [p[1:] for p, _ in er7ref.leaves(f2[2:] if n2 == 'MSH' else f2)]
        if p1 != p2:
            return 'moved', {'segment': n1, 'in': l1, 'in_places': p1, 'out_places': p2}
    return None


def classify(v, kind, d, fg, instruct):
    if kind == 'segments':
        missing = list((collections.Counter(d['in']) - collections.Counter(d['out'])).elements())
        extra = list((collections.Counter(d['out']) - collections.Counter(d['in'])).elements())
        if missing and not extra and fg and all(s not in instruct or s.startswith('Z') for s in missing):
            return 'segment-not-in-structure-dropped', None
        if not missing and not extra:
            return 'segment-order-changed', None
        return 'segment-lost-or-duplicated', None
    seg = d['segment']
    if kind == 'moved':
        return 'leaf-moved-within-its-field', '%s|%s' % (v, seg)
    if sorted(d['in']) == sorted(d['out']):
        gaps = tables.gap_numbers(v, seg) if tables.segments(v).get(seg) else []
        if gaps and any(p[0] in gaps for p in d['in_positions']):
            return 'value-at-skipped-field-number-moved', '%s|%s' % (v, seg)
        return 'leaf-order-changed', '%s|%s' % (v, seg)
    return 'leaf-lost-or-duplicated', '%s|%s' % (v, seg)


def check(parser, v, text, fg, rec, kinds=(), instruct=()):
    from hl7apy.exceptions import HL7apyException
    ec = ec_of(v, text)
    rec.seen('truncation_declared', '%s:%s' % (v >= '2.7', 'TRUNCATION' in ec))
    case = {'kind': 'message', 'version': v, 'find_groups': fg, 'text': text, 'instruct': sorted(instruct)}
    sig = (v, fg, tuple(kinds), tuple(er7ref.shape(f) for _, f in er7ref.tokenize_message(text, ec)[1][1:]))
    try:
        out = parser.parse_message(text, find_groups=fg).to_er7()
    except HL7apyException as e:
        rec.evaluation(sig, nontrivial=False)
        rec.count('surfaced_exceptions')
        rec.seen('surfaced_exception_types', type(e).__name__)
        return
    except Exception as e:
        rec.evaluation(sig, nontrivial=False)
        rec.count('non_library_exceptions')   # C15's business; surfaced, hence not a C03 violation
        return
    rec.evaluation(sig, nontrivial=len(kinds) > 1)
    rec.count('conservation_comparisons_fg_%s' % fg)
    r = compare(text, out, ec)
    if r is not None:
        cause, row = classify(v, r[0], r[1], fg, set(instruct))
        rec.violation(cause, case, {k: str(x)[:300] for k, x in r[1].items()}, row=row)


def run_profile(spec, rec):
    """a message profile whose segment keeps only the first fields of the official one: a message filling later fields is
    either refused or parsed without losing them"""
    from hl7apy import parser
    from hl7apy.exceptions import HL7apyException
    from . import c18
    v = spec['version']
    rng = gen.rng_for(spec['seed'], 'c03-profile', v)
    toks = gen.Tokens('p' + str(spec['shard']))
    msgs = tables.messages(v)
    names = [n for n in ('ADT_A01', 'ORU_R01', 'ADT_A05', 'ORM_O01', 'ACK', 'ADT_A03') if n in msgs and
             structref.usable(v, msgs[n]) and structref.msh9_for(v, n)]
    ec = er7ref.STD
    for i in range(spec['n']):
        if not names:
            break
        name = names[i % len(names)]
        node = msgs[name]
        tops = [c for c in node.children if c.kind == 'SEG' and c.name != 'MSH' and c.card[0] >= 1 and
                len([r for r in gen.usable_rows(v, c.name)]) >= 6 and tables.segment_name_places(node)[c.name] == 1]
        if not tops:
            continue
        tgt = tops[rng.randrange(len(tops))]
        rows = gen.usable_rows(v, tgt.name)
        keep = rows[rng.randint(1, len(rows) - 3)].num
        t = c18.thaw(tables.lib(v).MESSAGES[name])
        wide = [r for r in rows if r.kind == 'sequence' and len([x for x in tables.components(v, r.datatype) if x.ok]) >= 3
                and all(x.ok for x in tables.components(v, r.datatype))]
        if i % 2 and wide:
            # the profile keeps only the first components of one field's datatype: a message filling a later component
            fr = wide[rng.randrange(len(wide))]
            ncomp = len(tables.components(v, fr.datatype))
            keepc = rng.randint(1, ncomp - 1)
            for c in t[1]:
                if c[0] == tgt.name:
                    for f in c[1][1]:
                        if f[0] == fr.name:
                            f[1][1] = f[1][1][:keepc]
            prof = {name: c18.freeze(t)}
            comps = [''] * ncomp
            comps[0] = toks.next()
            comps[rng.randint(keepc, ncomp - 1)] = toks.next()
            while comps and comps[-1] == '':
                comps.pop()
            line = tgt.name + '|' * fr.num + '^'.join(comps)
            vals = {fr.num: 1}
            keep = 'components 1..%d of %s' % (keepc, fr.name)
            rec.count('profiles_trimming_components')
        else:
            for c in t[1]:
                if c[0] == tgt.name:
                    c[1][1] = [f for f in c[1][1] if int(f[0].split('_')[1]) <= keep]
            prof = {name: c18.freeze(t)}
            later = [r for r in rows if r.num > keep]
            vals = {}
            for r in rng.sample(later, min(2, len(later))) + [rows[0]]:
                vals[r.num] = toks.next()
            line = tgt.name + '|' + '|'.join(vals.get(k, '') for k in range(1, max(vals) + 1))
        lines = []
        for l in structref.emit(node, rng, 'required', 1):
            lines.append(structref.msh_line(v, name) if l.seg == 'MSH' else
                         (line if l.seg == tgt.name else make_line(rng, v, l.seg, 'in', toks, gen.full_ec(ec))))
        if line not in lines:
            continue
        text = '\r'.join(lines)
        for fg in (True, False):
            for level in (2, 1):
                case = {'kind': 'profile', 'version': v, 'structure': name, 'find_groups': fg, 'level': level, 'text': text,
                        'segment': tgt.name, 'kept_fields': keep}
                rec.evaluation(('profile', v, name, tgt.name, keep, fg, level, tuple(sorted(vals))))
                try:
                    out = parser.parse_message(text, message_profile=prof, find_groups=fg, validation_level=level).to_er7()
                except HL7apyException as e:
                    rec.count('profile_surfaced_exceptions')
                    continue
                except Exception:
                    rec.count('non_library_exceptions')
                    continue
                rec.count('profile_conservation_comparisons')
                r = compare(text, out, ec)
                if r is not None:
                    rec.violation('content-lost-under-a-profile:%s' % r[0], case, {k: str(x)[:200] for k, x in r[1].items()},
                                  row='%s|%s' % (v, name))
    rec.seen('versions', v)


def run_shard(spec, rec):
    if spec.get('kind') == 'profile':
        return run_profile(spec, rec)
    from hl7apy import parser
    v = spec['version']
    rng = gen.rng_for(spec['seed'], 'c03', v, spec.get('zmsg'))
    toks = gen.Tokens(str(spec['shard']))
    if not spec.get('zmsg'):
        # a structure row that references another entry than the one it names parses its segment with a foreign structure
        # (content is dropped silently): such structures cannot be generated for, they are reported
        for name, node in sorted(tables.messages(v).items()):
            why = structref.unusable_reason(v, node)
            rec.evaluation(('structure-table', v, name), nontrivial=False)
            if why and (why.startswith('missing-reference') or why == 'no-MSH'):
                rec.violation('structure-lists-child-without-reference', {'kind': 'structure', 'version': v,
                                                                          'structure': name}, {'why': why},
                              row='%s|%s' % (v, name))
    for i in range(spec['n']):
        b = build(rng, v, toks, spec.get('zmsg', False))
        if b is None:
            continue
        text, name, kinds, instruct = b
        for k in kinds:
            rec.seen('line_kinds', k)
        for fg in (True, False):
            check(parser, v, text, fg, rec, kinds, instruct)
        if i < 1:
            rec.sample({'version': v, 'kinds': kinds, 'text': text[:300]})
    rec.seen('versions', v)


def replay(case, rec):
    from hl7apy import parser
    if case.get('kind') == 'profile':
        from . import c18
        from hl7apy.exceptions import HL7apyException
        v, name = case['version'], case['structure']
        t = c18.thaw(tables.lib(v).MESSAGES[name])
        for c in t[1]:
            if c[0] == case['segment']:
                c[1][1] = [f for f in c[1][1] if int(f[0].split('_')[1]) <= case['kept_fields']]
        try:
            out = parser.parse_message(case['text'], message_profile={name: c18.freeze(t)}, find_groups=case['find_groups'],
                                       validation_level=case['level']).to_er7()
        except HL7apyException:
            return
        r = compare(case['text'], out, er7ref.STD)
        if r is not None:
            rec.violation('content-lost-under-a-profile:%s' % r[0], case, {k: str(x)[:200] for k, x in r[1].items()},
                          row='%s|%s' % (v, name))
        return
    if case.get('kind') == 'structure':
        node = tables.messages(case['version'])[case['structure']]
        why = structref.unusable_reason(case['version'], node)
        if why and (why.startswith('missing-reference') or why == 'no-MSH'):
            rec.violation('structure-lists-child-without-reference', case, {'why': why},
                          row='%s|%s' % (case['version'], case['structure']))
        return
    check(parser, case['version'], case['text'], case['find_groups'], rec, ('replay', 'x'), case.get('instruct', ()))


def floors(tier, m):
    out = []
    c = m['counters']
    for fg in (True, False):
        if c.get('conservation_comparisons_fg_%s' % fg, 0) < 2000:
            out.append('fewer than 2000 compared messages for find_groups=%s' % fg)
    missing = set(KINDS) - set(m['seen'].get('line_kinds', ()))
    if missing:
        out.append('line kinds never generated: %s' % sorted(missing))
    if len(m['seen'].get('versions', ())) != len(tables.versions()):
        out.append('not every version')
    return out
