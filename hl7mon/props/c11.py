"""C11 - reading never writes; the first write materialises exactly the path read.

Monitor: before/after deep snapshots (encoding, public children recursively with identities, validation report) around
repeated read chains; around a terminal write, every element that is new in the real tree must be one of the chain's
elements (each present exactly once) or a descendant of the chain's last element, and the tokenizer must find the value
at the chain's position and nothing else new.  A counter on ElementList.create_element records how many shadow elements
the reads created (evidence only).
"""
from .. import tables, er7ref, gen, treeinv
from . import c02

ID = 'C11'
LEVEL = 'exploration'
RULE = ('read chains of depth 1-4 (message -> group -> segment -> field -> component -> sub-component) spelled by name, lower '
        'case, long name or positional path, read three times through attribute access, len, repr, iteration, indexing, '
        'to_er7 and validate, then a terminal write, then reads and a write on a sibling path; segments and messages of every '
        'version, both levels; non-trivial = chain depth >= 2; distinct = (version, root kind, chain names, spellings, level)')
ASSUMPTIONS = [
    '"children" means the public children (children.list and by-name indexes); the shadow index of not-yet-materialised '
    'traversal children is internal and excluded by the statement itself',
    'er7ref tokenizer decides where the written value landed',
]

READS = ('attr', 'len', 'repr', 'iter', 'index', 'to_er7', 'validate')


def plan(tier, seed):
    n = 300 if tier == 'quick' else 5000
    return [{'version': v, 'n': n, 'root': r} for v in tables.versions() for r in ('segment', 'message')]


def vreport(e):
    try:
        r = e.validate(return_errors=True)
        return ([str(x) for x in r.errors], [str(x) for x in r.warnings])
    except Exception as x:
        return 'EXC:' + type(x).__name__


def state(root):
    return treeinv.snapshot(root), vreport(root)


def build_chain(rng, v, seg):
    """-> list of (name, position number, row) below the segment: field [, component [, sub-component]]"""
    rows = [r for r in gen.usable_rows(v, seg)]
    if not rows:
        return None
    f = rng.choice(rows)
    chain = [(f.name, f.num, f)]
    if f.kind == 'sequence' and rng.random() < 0.8:
        comps = [c for c in tables.components(v, f.datatype) if c.ok and c.card[1] != 0]
        if comps:
            c = rng.choice(comps)
            chain.append((c.name, c.num, c))
            if c.kind == 'sequence' and not tables.is_base(v, c.datatype) and rng.random() < 0.8:
                subs = [s for s in tables.components(v, c.datatype) if s.ok and s.card[1] != 0 and s.kind == 'leaf']
                if subs:
                    s = rng.choice(subs)
                    chain.append((s.name, s.num, s))
    return chain


def spell(rng, core, chain, i, parent_rows):
    name, num, row = chain[i]
    r = rng.random()
    if r < 0.35:
        return name.lower()
    if r < 0.5:
        return name
    if r < 0.7 and row.long_name:
        ln = row.long_name
        same = sum(1 for x in parent_rows if x.long_name == ln)
        cls = (core.Segment, core.Field, core.Component)[min(i, 2)]
        if same == 1 and ln.lower() not in cls.cls_attrs and not hasattr(cls, ln.lower()):
            return ln.lower()
    return name.lower().capitalize()


def leaf_witness(v, row):
    if row.kind == 'leaf' or tables.is_base(v, row.datatype):
        return gen.witness(v, row.datatype), ()
    text, (j, k), val = c02.field_witness(v, tables.FieldRow('X', 'X_1', 1, 'sequence', row.datatype, None, (0, 1),
                                                             None, -1, True, ''))
    return text, (j, k)


def do_reads(rng, root, names, rec):
    for rep in range(3):
        cur = root
        for nm in names:
            cur = getattr(cur, nm)
            len(cur)
            repr(cur)
            list(cur)
            try:
                cur[0]
            except IndexError:
                pass
        root.to_er7()
        if hasattr(cur, 'to_er7'):
            cur.to_er7()
    for k in READS:
        rec.seen('read_kinds', k)


def check_case(core, v, level, root_kind, seg, chain, spellings, rec, group_path=()):
    case = {'version': v, 'level': level, 'root': root_kind, 'segment': seg, 'chain': [c[0] for c in chain],
            'spellings': spellings, 'group_path': list(group_path)}
    sig = (v, level, root_kind, seg, tuple(c[0] for c in chain), tuple(spellings))
    depth = len(spellings)
    rec.evaluation(sig, nontrivial=depth >= 2)
    rec.seen('depths', str(min(depth, 4)))
    try:
        if root_kind == 'segment':
            root = core.Segment(seg, version=v, validation_level=level)
            if seg == 'MSH':
                root.msh_1, root.msh_2 = '|', '^~\\&'
        else:
            root = core.Message(group_path[0], version=v, validation_level=level)
            root.msh.msh_7 = '20200101'
        names = list(group_path[1:]) + ([seg.lower()] if root_kind == 'message' else []) + spellings
        if root_kind == 'message':
            names = [n.lower() for n in group_path[1:]] + [seg.lower()] + spellings
        before = state(root)
        do_reads(gen.rng_for(0, 'r'), root, names, rec)
        after = state(root)
        rec.count('read_purity_comparisons')
        if after != before:
            what = 'encoding' if after[0][0] != before[0][0] else ('children' if after[0] != before[0] else 'validation')
            rec.violation('read-changed-%s' % what, case, {'before': str(before[0][0])[:150],
                                                          'after': str(after[0][0])[:150]})
            return
        # a terminal write that is refused (element of another validation level) must create nothing either
        try:
            cls = (core.Field, core.Component, core.SubComponent)[len(chain) - 1]
            bad = cls(chain[-1][0], version=v, validation_level=3 - level)
            bad.value = gen.witness(v, 'ST')
        except Exception:
            bad = None
        if bad is not None:
            cur = root
            for nm in names[:-1]:
                cur = getattr(cur, nm)
            refused = False
            try:
                setattr(cur, names[-1], bad)
            except Exception:
                refused = True
            if refused:
                rec.count('refused_terminal_writes')
                if state(root) != before:
                    rec.violation('refused-write-materialised-the-chain', case, {'after': root.to_er7()[-120:]})
                    return
            else:
                rec.count('bad_terminal_write_accepted')
                return
        # ... nor does a value of a kind the library cannot take (bytes, a number, None, a list) assigned through `.value` at
        # the end of the chain
        for wrong in (b'bytes', 12345, None, ['a']):
            cur = root
            for nm in names:
                cur = getattr(cur, nm)
            try:
                cur.value = wrong
                rec.count('wrong_type_value_accepted')
                return
            except Exception:
                rec.count('refused_wrong_type_values')
                if state(root) != before:
                    rec.violation('refused-write-materialised-the-chain', dict(case, value=repr(wrong)),
                                  {'after': root.to_er7()[-120:]})
                    return
        # terminal write
        ids_before = {id(e) for e in treeinv.walk(root)}
        text, sub = leaf_witness(v, chain[-1][2])
        er_before = root.to_er7()
        cur = root
        for nm in names[:-1]:
            cur = getattr(cur, nm)
        setattr(cur, names[-1], text)
        new = [e for e in treeinv.walk(root) if id(e) not in ids_before]
        # follow the chain through the real children
        cur = root
        chain_els = []
        real_names = [n.upper() for n in group_path[1:]] + ([seg] if root_kind == 'message' else []) + \
                     [c[0] for c in chain]
        ok = True
        for nm in real_names:
            lst = cur.children.indexes.get(nm, [])
            if len(lst) != 1:
                ok = False
                break
            cur = lst[0]
            chain_els.append(cur)
        rec.count('write_materialisation_checks')
        if not ok:
            rec.violation('chain-element-missing-or-duplicated', case, {'at': nm, 'found': len(lst),
                                                                       'er7': root.to_er7()[-120:]})
            return
        below = {id(e) for e in treeinv.walk(chain_els[-1])}
        allowed = {id(e) for e in chain_els} | below
        extra = [repr(e) for e in new if id(e) not in allowed]
        if extra:
            rec.violation('write-created-extra-elements', case, {'extra': extra[:5]})
            return
        # position of the value
        er = root.to_er7()
        line = er.split('\r')[-1] if root_kind == 'message' else er
        bl = er_before.split('\r') if root_kind == 'message' else None
        if root_kind == 'message' and (er.split('\r')[:len(bl)] != bl or len(er.split('\r')) != len(bl) + 1):
            rec.violation('write-changed-other-segments', case, {'before': er_before[-100:], 'after': er[-150:]})
            return
        nm_, fields = er7ref.tokenize_segment(line, er7ref.STD)
        lv = er7ref.leaves(fields[2:] if seg == 'MSH' and root_kind == 'segment' else fields)
        off = 2 if seg == 'MSH' and root_kind == 'segment' else 0
        pos = [chain[0][1] - off, 1]
        pos += [chain[1][1]] if len(chain) > 1 else []
        pos += [chain[2][1]] if len(chain) > 2 else []
        leaf_val = text.replace('^', '').replace('&', '')
        want_prefix = tuple(pos)
        good = len(lv) == 1 and lv[0][1] == leaf_val and lv[0][0][:len(want_prefix)] == want_prefix
        if good and sub:
            full = list(want_prefix) + list(sub)[len(want_prefix) - 2:] if False else None
        if not good:
            rec.violation('written-value-misplaced', case, {'encoded': line[:200], 'expected_prefix': list(want_prefix),
                                                           'value': leaf_val})
            return
        rec.count('values_located_by_tokenizer')
        # reads on a sibling path must not disturb what was written
        st = state(root)
        do_reads(gen.rng_for(0, 'r'), root, names[:-1] if len(names) > 1 else names, rec)
        if state(root) != st:
            rec.violation('read-after-write-changed-state', case, {})
            return
        # write -> delete -> read -> write again: a proxy that remembered the element it once created must not hand
        # the deleted one back
        delattr(root, names[0])
        after_delete = state(root)
        if after_delete[0][0] != before[0][0] or after_delete[0][5] != before[0][5]:
            rec.violation('delete-did-not-restore-the-initial-state', case, {'er7': root.to_er7()[-100:]})
            return
        do_reads(gen.rng_for(0, 'r'), root, names, rec)
        if state(root) != after_delete:
            rec.violation('read-after-delete-changed-state', case, {'er7': root.to_er7()[-100:]})
            return
        cur = root
        for nm in names[:-1]:
            cur = getattr(cur, nm)
        setattr(cur, names[-1], text)
        er2 = root.to_er7()
        rec.count('rewrite_after_delete_checks')
        if er2 != er:
            rec.violation('rewrite-after-delete-lost-or-misplaced', case, {'first': er[-120:], 'second': er2[-120:]})
            return
        # reads through the same spellings see what was written, and writing it once more creates nothing
        seen = len(getattr(root, names[0]))
        if seen != 1:
            rec.violation('read-through-the-same-spelling-does-not-see-the-written-child', case,
                          {'spelling': names[0], 'len': seen, 'er7': er2[-100:]})
            return
        n_before = treeinv.count_nodes([root])
        cur = root
        for nm in names[:-1]:
            cur = getattr(cur, nm)
        setattr(cur, names[-1], text)
        rec.count('second_write_checks')
        if root.to_er7() != er2 or treeinv.count_nodes([root]) != n_before:
            rec.violation('second-write-through-the-same-chain-created-another-path', case,
                          {'first': er2[-120:], 'second': root.to_er7()[-120:]})
    except Exception as e:
        rec.violation('raised:%s' % type(e).__name__, case, {'exc': repr(e)[:200]})


def check_open_segment(core, v, seg, level, rec, rng):
    """Z segments and segments whose last field is `varies` accept any field number: reads of lower-numbered fields must
    not disturb higher ones, writes in any order land at their own index"""
    rows = tables.segments(v).get(seg)
    base = rows[-1].num if rows else 0
    hi = base + rng.randint(3, 9)
    lo = base + rng.randint(1, 2)
    case = {'kind': 'open-segment', 'version': v, 'segment': seg, 'level': level, 'hi': hi, 'lo': lo}
    rec.evaluation(('open', v, seg, level, hi, lo))
    try:
        s = core.Segment(seg, version=v, validation_level=level)
        setattr(s, '%s_%d' % (seg.lower(), hi), 'five')
        before = state(s)
        for rep in range(2):
            # a missing field below the highest one present, and one beyond it
            for num in (lo, hi + 1 + rep, hi + 5):
                p = getattr(s, '%s_%d' % (seg.lower(), num))
                len(p), repr(p), list(p)
                getattr(p, 'value')
                getattr(p, 'datatype')
                s.to_er7()
        rec.count('read_purity_comparisons')
        if state(s) != before:
            rec.violation('read-changed-encoding', case, {'before': before[0][0], 'after': s.to_er7()})
            return
        setattr(s, '%s_%d' % (seg.lower(), lo), 'two')
        name, fields = er7ref.tokenize_segment(s.to_er7(), er7ref.STD)
        lv = er7ref.leaves(fields)
        if lv != [((lo, 1, 1, 1), 'two'), ((hi, 1, 1, 1), 'five')]:
            rec.violation('written-value-misplaced', case, {'encoded': s.to_er7()})
            return
        rec.count('open_segment_checks')
    except Exception as e:
        rec.violation('raised:%s' % type(e).__name__, case, {'exc': repr(e)[:200]})


def check_z_in_message(core, v, level, rec, rng):
    """locally defined (Z) segments reached by traversal from a message or from a group: reads write nothing, the first
    write creates the segment once, at the end of its parent"""
    from .. import structref
    zname = 'Z' + rng.choice('ABIN') + rng.choice('DNP1')
    num = rng.randint(1, 5)
    how = rng.choice(['field', 'field-value', 'segment-value'])
    case = {'kind': 'z-in-message', 'version': v, 'level': level, 'segment': zname, 'field': num, 'how': how}
    rec.evaluation(('z-in-message', v, level, zname, num, how))
    try:
        m = core.Message('ADT_A01', version=v, validation_level=level, encoding_chars=gen.full_ec(er7ref.STD))
        m.msh.msh_7 = '20200101'
        m.msh.msh_9 = structref.msh9_for(v, 'ADT_A01') or 'ADT^A01'
        m.msh.msh_10 = '1'
        groups = [c.name for c in tables.messages(v)['ADT_A01'].children if c.kind == 'GRP']
        targets = [m]
        if groups:
            targets.append(m.add_group(groups[0]))
        for tgt in targets:
            before = state(m)
            for _ in range(2):
                p = getattr(tgt, zname.lower())
                len(p), repr(p), list(p)
                q = getattr(p, '%s_%d' % (zname.lower(), num))
                len(q), repr(q), q.value
                m.to_er7()
            rec.count('read_purity_comparisons')
            if state(m) != before:
                rec.violation('read-changed-state', case, {'er7': m.to_er7()[-100:]})
                return
            er_before = m.to_er7()
            if how == 'field':
                setattr(getattr(tgt, zname.lower()), '%s_%d' % (zname.lower(), num), 'zv')
            elif how == 'field-value':
                getattr(getattr(tgt, zname.lower()), '%s_%d' % (zname.lower(), num)).value = 'zv'
            else:
                getattr(tgt, zname.lower()).value = zname + '|' * num + 'zv'
            # (an empty group contributes an empty line to the encoding: lines are compared)
            want = [l for l in er_before.split('\r') if l] + [zname + '|' * num + 'zv']
            rec.count('z_segment_write_checks')
            if [l for l in m.to_er7().split('\r') if l] != want or len(tgt.children.indexes.get(zname, [])) != 1:
                rec.violation('write-through-a-missing-z-segment-lost-or-misplaced', case,
                              {'encoded': m.to_er7()[-80:], 'expected': want[-2:], 'under': tgt.name})
                return
            delattr(tgt, zname.lower())
    except Exception as e:
        rec.violation('raised:%s' % type(e).__name__, case, {'exc': repr(e)[:200]})


def check_moved_segment(core, v, level, rec, rng):
    """a segment prepared on its own (chain reads, one chain write, read back) and then added to a message that declares
    other delimiters: a later write at the end of a chain through it creates exactly that chain, split with the message's
    characters"""
    ec = gen.delimiter_set(rng, v, with_truncation=False)
    top = [c.name for c in tables.messages(v)['ADT_A01'].children if c.kind == 'SEG']
    segs = [s for s in ('PID', 'NK1', 'PV1', 'PD1') if tables.segments(v).get(s) and s in top]
    seg = segs[rng.randrange(len(segs))]
    rows = []
    for r in gen.usable_rows(v, seg):
        if r.kind == 'sequence':
            cs = [c for c in tables.components(v, r.datatype) if c.ok and c.card[1] != 0]
            cx = [c for c in cs if c.kind == 'sequence' and not tables.is_base(v, c.datatype) and
                  len([x for x in tables.components(v, c.datatype) if x.ok and x.kind == 'leaf' and x.card[1] != 0 and
                       x.datatype in ('ST', 'ID', 'IS')]) >= 2]
            lf = [c for c in cs if c.kind == 'leaf' and c.datatype in ('ST', 'ID', 'IS')]
            if cx and lf:
                rows.append((r, cx[0], lf[0]))
    if not rows:
        rec.count('moved_segment_not_applicable')
        return
    row, ccx, clf = rows[rng.randrange(len(rows))]
    case = {'kind': 'moved-segment', 'version': v, 'level': level, 'segment': seg, 'field': row.name,
            'ec': {k: x for k, x in ec.items() if k not in ('SEGMENT', 'GROUP')}}
    rec.evaluation(('moved-segment', v, level, seg, row.name, ccx.name, ''.join(sorted(ec.values()))))
    try:
        from .. import structref
        m = core.Message('ADT_A01', version=v, validation_level=level, encoding_chars=gen.full_ec(ec))
        m.msh.msh_7 = '20200101'
        s = core.Segment(seg, version=v, validation_level=level)
        f = getattr(s, row.name.lower())
        for _ in range(2):
            getattr(getattr(f, ccx.name.lower()), tables.components(v, ccx.datatype)[0].name.lower())
            len(f), repr(f), s.to_er7()
        setattr(getattr(s, row.name.lower()), clf.name.lower(), 'w1')
        getattr(s, row.name.lower()).to_er7(), getattr(getattr(s, row.name.lower()), clf.name.lower()).value
        for e in treeinv.walk(s):
            e.encoding_chars
        m.add(s)
        before = state(m)
        for _ in range(2):
            getattr(getattr(getattr(m, seg.lower()), row.name.lower()), ccx.name.lower())
            m.to_er7()
        rec.count('read_purity_comparisons')
        if state(m) != before:
            rec.violation('read-changed-state', case, {'er7': m.to_er7()[-100:]})
            return
        n_before = treeinv.count_nodes([m])
        text = 'a' + ec['SUBCOMPONENT'] + 'b'
        setattr(getattr(getattr(m, seg.lower()), row.name.lower()), ccx.name.lower(), text)
        comp = getattr(getattr(getattr(m, seg.lower()), row.name.lower()), ccx.name.lower())[0]
        rec.count('moved_segment_write_checks')
        if len(comp.children.list) != 2 or treeinv.count_nodes([m]) != n_before + 3 or \
                [c.to_er7() for c in comp.children.list] != ['a', 'b']:
            rec.violation('write-through-a-moved-segment-created-other-elements', case,
                          {'component_children': [c.to_er7() for c in comp.children.list], 'er7': m.to_er7()[-80:]})
    except Exception as e:
        rec.violation('raised:%s' % type(e).__name__, case, {'exc': repr(e)[:200]})


def check_invalid_positions(core, v, seg, level, rec, rng):
    """positional paths naming a place that does not exist (position 0, one past the last component, a sub-component of a
    primitive): reading raises and creates nothing, assigning is refused and creates nothing"""
    from hl7apy.exceptions import HL7apyException
    # (fields of type `varies` hold components by number, without a last one: not judged here)
    rows = [r for r in gen.usable_rows(v, seg) if r.datatype != 'varies']
    if not rows:
        return
    r = rng.choice(rows)
    comps = [c for c in tables.components(v, r.datatype)] if r.kind == 'sequence' else []
    ncomp = len(comps) if comps else 1
    base = r.name.lower()
    bad = ['%s_0' % base, '%s_%d' % (base, ncomp + 1), '%s_1_0' % base, '%s_0_1' % base, '%s_0_0' % base]
    if not comps:
        bad += ['%s_1_1' % base, '%s_1_2' % base]
    else:
        k = rng.randrange(ncomp)
        sub = tables.components(v, comps[k].datatype) if comps[k].kind == 'sequence' else []
        bad += ['%s_%d_0' % (base, k + 1), '%s_%d_%d' % (base, k + 1, (len(sub) or 1) + 1)]
    for path in bad:
        for op in ('read', 'write'):
            root = core.Segment(seg, version=v, validation_level=level)
            root2 = getattr(root, base)
            before = state(root)
            case = {'kind': 'invalid-position', 'version': v, 'segment': seg, 'level': level, 'path': path, 'op': op}
            rec.evaluation(('invalid-position', v, seg, level, path, op))
            try:
                if op == 'read':
                    getattr(root2, path)
                else:
                    setattr(root2, path, gen.witness(v, r.datatype) if r.kind == 'leaf' else 'x')
                raised = None
            except (HL7apyException, AttributeError) as e:
                raised = type(e).__name__
            except Exception as e:
                rec.violation('invalid-position-raised:%s' % type(e).__name__, case, {'exc': repr(e)[:160]})
                continue
            rec.count('invalid_position_probes')
            if raised is None:
                rec.violation('position-that-does-not-exist-accepted', case, {'encoding_after': root.to_er7()})
            elif state(root) != before:
                rec.violation('refused-path-changed-the-tree', case, {'encoding_after': root.to_er7(), 'raised': raised})


def longname_pairs(v):
    """(field row, other datatype, long name, component name in the field's datatype, component name in the other datatype):
    the same long name at another position of another composite datatype"""
    by = {}
    for d in tables.complex_datatypes(v):
        for c in tables.components(v, d):
            if c.ok and c.card[1] != 0 and c.long_name:
                by.setdefault(c.long_name, []).append((d, c))
    out = []
    for ln, places in sorted(by.items()):
        for d1, c1 in places:
            for d2, c2 in places:
                if d1 != d2 and c1.num != c2.num:
                    out.append((d1, d2, ln, c1, c2))
    return out


def check_longname_after_override(core, v, rec, rng):
    """a field is read through the long name of a component, its datatype is then overridden (TOLERANT, still empty) with one
    that has the same long name at another place, and a value is written through that long name: exactly the component the
    NEW datatype gives that name is created"""
    pairs = longname_pairs(v)
    if not pairs:
        rec.count('versions_without_shared_long_names')
        return
    fields = {}
    for sname, rows in sorted(tables.segments(v).items()):
        for r in rows or []:
            if r.ok and r.card[1] != 0 and r.kind == 'sequence':
                fields.setdefault(r.datatype, r)
    usable = [p for p in pairs if p[0] in fields]
    for d1, d2, ln, c1, c2 in rng.sample(usable, min(6, len(usable))):
        r = fields[d1]
        wit = gen.witness(v, c2.datatype) if c2.kind == 'leaf' else 'x'
        for read_first in (True, False):
            case = {'kind': 'longname-after-override', 'version': v, 'field': r.name, 'override': d2, 'long_name': ln,
                    'read_first': read_first}
            rec.evaluation(('longname-after-override', v, r.name, d2, ln, read_first))
            try:
                f = core.Field(r.name, version=v, validation_level=2)
                if read_first:
                    getattr(f, ln.lower())
                    if len(f.children):
                        rec.violation('read-created-children', case, {'children': [c.name for c in f.children.list]})
                        continue
                f.datatype = d2
                getattr(f, ln.lower()).value = wit
                names = [c.name for c in f.children.list]
                rec.count('longname_after_override_checks')
                if names != [c2.name]:
                    rec.violation('write-through-long-name-after-override-created-other-children', case,
                                  {'children': names, 'expected': [c2.name]})
            except Exception as e:
                if read_first:
                    rec.violation('write-through-long-name-after-override-raised:%s' % type(e).__name__, case,
                                  {'exc': repr(e)[:160]})
                else:
                    rec.count('longname_after_override_not_applicable')     # refused without the read too: not judged


def message_hosts(v):
    """segment -> (structure, group names...) for segments reachable at top level or one/two groups deep,
    through non-ambiguous names"""
    out = {}
    from .. import structref
    for name, node in sorted(tables.messages(v).items()):
        if not structref.usable(v, node):
            continue
        places = tables.segment_name_places(node)

        def rec_(n, path, depth):
            for c in n.children:
                if c.kind == 'SEG' and places[c.name] == 1 and c.name != 'MSH' and c.card[1] != 0:
                    out.setdefault(c.name, []).append((name,) + path)
                elif c.kind == 'GRP' and depth < 2 and c.card[1] != 0:
                    rec_(c, path + (c.name,), depth + 1)
        rec_(node, (), 0)
    return out


def run_shard(spec, rec):
    from hl7apy import core
    v = spec['version']
    rng = gen.rng_for(spec['seed'], 'c11', v, spec['root'])
    segs = sorted(s for s, rows in tables.segments(v).items() if rows and gen.usable_rows(v, s))
    hosts = message_hosts(v) if spec['root'] == 'message' else {}
    created = [0]
    orig = core.ElementList.create_element

    def counting(self, *a, **k):
        created[0] += 1
        return orig(self, *a, **k)
    core.ElementList.create_element = counting
    try:
        for i in range(spec['n']):
            level = 1 if i % 3 == 0 else 2
            if spec['root'] == 'message':
                seg = rng.choice(sorted(hosts))
                gp = rng.choice(hosts[seg])
            else:
                seg = rng.choice(segs)
                gp = ()
            chain = build_chain(rng, v, seg)
            if not chain:
                continue
            parents = [tables.segments(v)[seg]]
            if len(chain) > 1:
                parents.append(tables.components(v, chain[0][2].datatype))
            if len(chain) > 2:
                parents.append(tables.components(v, chain[1][2].datatype))
            if len(chain) >= 2 and rng.random() < 0.25:
                # positional path from the field: <seg>_<i>_<j>[_<k>]
                spellings = [spell(rng, core, chain, 0, parents[0]),
                             '_'.join([chain[0][0].lower()] + [str(c[1]) for c in chain[1:]])]
                rec.seen('spelling_kinds', 'positional')
            else:
                spellings = [spell(rng, core, chain, j, parents[j]) for j in range(len(chain))]
            check_case(core, v, level, spec['root'], seg, chain, spellings, rec, gp)
            if i < 1:
                rec.sample({'version': v, 'root': spec['root'], 'segment': seg, 'group_path': list(gp),
                            'spellings': spellings})
        if spec['root'] == 'message' and 'ADT_A01' in tables.messages(v):
            for level in (1, 2):
                for _ in range(12):
                    check_z_in_message(core, v, level, rec, rng)
                    check_moved_segment(core, v, level, rec, rng)
        if spec['root'] == 'segment':
            for i in range(max(6, spec['n'] // 12)):
                check_invalid_positions(core, v, rng.choice(segs), 1 + i % 2, rec, rng)
            check_longname_after_override(core, v, rec, rng)
            for seg in c02.open_ended_segments(v):
                for level in (1, 2):
                    for _ in range(3):
                        check_open_segment(core, v, seg, level, rec, rng)
    finally:
        core.ElementList.create_element = orig
    rec.count('shadow_or_real_elements_created', created[0])
    rec.seen('versions', v)


def replay(case, rec):
    from hl7apy import core
    v = case['version']
    if case.get('kind') == 'moved-segment':
        for k in range(40):
            check_moved_segment(core, v, case['level'], rec, gen.rng_for(k, 'replay'))
        return
    if case.get('kind') == 'z-in-message':
        for k in range(40):
            check_z_in_message(core, v, case['level'], rec, gen.rng_for(k, 'replay'))
        return
    if case.get('kind') == 'open-segment':
        for k in range(20):
            check_open_segment(core, v, case['segment'], case['level'], rec, gen.rng_for(k, 'replay'))
        return
    if case.get('kind') == 'invalid-position':
        for k in range(60):
            check_invalid_positions(core, v, case['segment'], case['level'], rec, gen.rng_for(k, 'replay'))
        return
    if case.get('kind') == 'longname-after-override':
        for k in range(20):
            check_longname_after_override(core, v, rec, gen.rng_for(k, 'replay'))
        return
    rows = {r.name: r for r in tables.segments(v)[case['segment']]}
    chain = []
    f = rows[case['chain'][0]]
    chain.append((f.name, f.num, f))
    if len(case['chain']) > 1:
        c = [x for x in tables.components(v, f.datatype) if x.name == case['chain'][1]][0]
        chain.append((c.name, c.num, c))
        if len(case['chain']) > 2:
            s = [x for x in tables.components(v, c.datatype) if x.name == case['chain'][2]][0]
            chain.append((s.name, s.num, s))
    check_case(core, v, case['level'], case['root'], case['segment'], chain, case['spellings'], rec,
               tuple(case.get('group_path', ())))


def floors(tier, m):
    out = []
    if m['counters'].get('invalid_position_probes', 0) < 1000 or m['counters'].get('longname_after_override_checks', 0) < 50:
        out.append('paths that do not exist / long names after an override barely probed: %s, %s' % (
            m['counters'].get('invalid_position_probes'), m['counters'].get('longname_after_override_checks')))
    c = m['counters']
    if c.get('read_purity_comparisons', 0) < 3000:
        out.append('fewer than 3000 read chains')
    if c.get('values_located_by_tokenizer', 0) < 2000:
        out.append('fewer than 2000 writes located')
    if set(m['seen'].get('depths', ())) < {'1', '2', '3'}:
        out.append('chain depths seen: %s' % sorted(m['seen'].get('depths', ())))
    if len(m['seen'].get('versions', ())) != len(tables.versions()):
        out.append('not every version')
    if c.get('shadow_or_real_elements_created', 0) == 0:
        out.append('create_element counter never reached')
    return out
