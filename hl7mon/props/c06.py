"""C06 - escaping is delimiter-safe and idempotent for every delimiter set.

Oracles: er7ref.well_formed / er7ref.ref_escape (single left-to-right pass) applied at the boundary, plus an
icontract post-condition on the real TextualDataType.to_er7 (base and v2.7 variants) that checks well-formedness and
idempotence on every call any workload makes, with whatever encoding characters were passed.
"""
import itertools

from .. import tables, er7ref, gen, hooks

ID = 'C06'
LEVEL = 'exploration'
NEEDS = ('icontract',)
RULE = ('exhaustive strings over {delimiters, escape, letters H E F L, two ordinary characters} up to a length bound for '
        'the default delimiter sets of <2.7 and >=2.7 (every textual class of every version on a shorter bound), '
        'length-4 strings for seeded random delimiter sets (regex-special characters included), seeded longer strings, and '
        'datatype-object assignment inside built messages (count preservation); non-trivial = the string contains a '
        'delimiter or the escape character; distinct = (class, delimiter set, string)')
ASSUMPTIONS = [
    'alphabet = the delimiters the statement lists plus the escape character; CR (segment terminator) is not generated',
    'content preservation is judged only for strings without an escape character (exact match with the reference escaper); '
    'for strings holding escape characters the statement fixes well-formedness, idempotence and the fixed point on '
    'well-formed text only',
    'letters H N F S T R E (and L from v2.7) are the recognised sequences',
]


def textual_classes(version):
    import hl7apy.base_datatypes as bd
    lib = tables.lib(version)
    out = {}
    for name, cls in sorted(lib.BASE_DATATYPES.items()):
        if isinstance(cls, type) and issubclass(cls, bd.TextualDataType) and name != 'TN':
            out[name] = cls
    return out


def alphabet(ec):
    a = er7ref.delimiters(ec) + [ec['ESCAPE']] + ['H', 'E', 'F', 'L', 'x', ' ']
    seen = []
    for c in a:
        if c not in seen:
            seen.append(c)
    return seen


def plan(tier, seed):
    L = 5 if tier == 'quick' else 6
    specs = []
    for ver, first in (('2.5', None), ('2.7', None)):
        ec = er7ref.std(ver)
        for a in alphabet(ec):
            specs.append({'kind': 'grid', 'version': ver, 'cls': 'ST', 'ec': ec, 'L': L, 'first': a})
    for v in tables.versions():
        specs.append({'kind': 'classes', 'version': v, 'L': 4 if tier == 'quick' else 5})
    nsets = 120 if tier == 'quick' else 1200
    for i in range(8):
        specs.append({'kind': 'randsets', 'part': i, 'nsets': nsets // 8})
    for i in range(4):
        specs.append({'kind': 'long', 'part': i, 'n': 4000 if tier == 'quick' else 60000})
    for v in tables.versions():
        specs.append({'kind': 'assign', 'version': v, 'n': 120 if tier == 'quick' else 1500})
    for v in ('2.3', '2.5', '2.6', '2.7', '2.8.2') if tier == 'quick' else tables.versions():
        specs.append({'kind': 'shared', 'version': v, 'n': 3 if tier == 'quick' else 20})
    return specs


class NotTextual(Exception):
    pass


def tolerant_fallback(dt, version):
    """the textual object the library substitutes (TOLERANT) for an invalid value of a non-textual datatype"""
    from hl7apy.factories import datatype_factory
    from hl7apy.base_datatypes import TextualDataType

    def make(x):
        o = datatype_factory(dt, x, version, 2)
        if not isinstance(o, TextualDataType):
            raise NotTextual()
        return o
    return make


def judge(cls, clsname, version, x, ec, letters, rec, log=None):
    """the four clauses on one (class, delimiter set, string)"""
    nontrivial = any(c in x for c in er7ref.delimiters(ec)) or ec['ESCAPE'] in x
    rec.evaluation((clsname, version, hooks._ec_str(ec), x), nontrivial)
    case = {'kind': 'string', 'version': version, 'cls': clsname, 'ec': ec, 'value': x}
    try:
        y = cls(x).to_er7(ec)
    except NotTextual:
        rec.count('fallback_values_that_were_valid')
        return
    except Exception as e:
        rec.violation('encode-raised:%s' % type(e).__name__, case, {'exc': repr(e)[:200]})
        return
    if not er7ref.well_formed(y, ec, letters):
        rec.violation(classify_illformed(x, y, ec, letters), case, {'encoded': y})
        return
    y2 = cls(y).to_er7(ec)
    if y2 != y:
        rec.violation('not-idempotent', case, {'encoded': y, 'again': y2})
        return
    if er7ref.well_formed(x, ec, letters) and y != x:
        rec.violation('well-formed-text-changed', case, {'encoded': y})
        return
    if ec['ESCAPE'] not in x and y != er7ref.ref_escape(x, ec, letters):
        rec.violation('content-not-preserved', case, {'encoded': y, 'expected': er7ref.ref_escape(x, ec, letters)})


def classify_illformed(x, y, ec, letters):
    """mechanism of an ill-formed encoding: an unescaped delimiter, or an escape character left outside a sequence"""
    esc = ec['ESCAPE']
    i, n = 0, len(y)
    while i < n:
        if y[i] == esc:
            if i + 2 < n and y[i + 1] in letters and y[i + 2] == esc:
                i += 3
                continue
            return 'escape-char-outside-sequence'
        if y[i] in er7ref.delimiters(ec):
            return 'unescaped-delimiter'
        i += 1
    return 'ill-formed'


def drain(log, rec, version):
    for kind, d in log.drain():
        rec.violation('contract:' + kind, {'kind': 'string', 'version': version, 'cls': d.get('cls'),
                                          'ec': d.get('ec'), 'value': d.get('value')}, d)
    rec.counters['textual_contract_evaluations'] = log.counts.get('textual_contract_evaluations', 0)


def run_grid(spec, rec):
    v, ec = spec['version'], spec['ec']
    cls = textual_classes(v)[spec['cls']]
    letters = er7ref.letters_for(v)
    alpha = alphabet(ec)
    n = 0
    for l in range(0, spec['L']):
        for t in itertools.product(alpha, repeat=l):
            x = spec['first'] + ''.join(t)
            judge(cls, spec['cls'], v, x, ec, letters, rec)
            n += 1
    if spec['first'] == alpha[0]:
        judge(cls, spec['cls'], v, '', ec, letters, rec)
    rec.count('grid_strings', n)
    rec.seen('grid_sets', '%s %s' % (v, hooks._ec_str(ec)))
    rec.sample({'kind': 'grid', 'version': v, 'ec': hooks._ec_str(ec), 'first': spec['first'], 'max_len': spec['L'],
                'example': spec['first'] + ec['ESCAPE'] + 'H'})


def run_classes(spec, rec):
    log = hooks.MonitorLog()
    hooks.install_textual_contract(log)
    v = spec['version']
    ec = er7ref.std(v)
    letters = er7ref.letters_for(v)
    alpha = [ec['FIELD'], ec['REPETITION'], ec['ESCAPE'], 'H', 'L', 'x']
    if 'TRUNCATION' in ec:
        alpha.insert(2, ec['TRUNCATION'])
    for name, cls in textual_classes(v).items():
        for l in range(0, spec['L'] + 1):
            for t in itertools.product(alpha, repeat=l):
                judge(cls, name, v, ''.join(t), ec, letters, rec)
        rec.seen('classes', '%s %s' % (v, name))
    # the textual leaf created for an invalid DT / DTM / TM / NM / SI value under TOLERANT is a textual leaf of this version
    for dt in ('NM', 'SI', 'DT', 'DTM', 'TM'):
        if dt not in tables.base_datatypes(v):
            continue
        cls = tolerant_fallback(dt, v)
        for l in range(1, spec['L'] + 1):
            for t in itertools.product(alpha, repeat=l):
                judge(cls, 'fallback-for-' + dt, v, ''.join(t), ec, letters, rec)
        rec.seen('classes', '%s fallback-for-%s' % (v, dt))
    drain(log, rec, v)


def run_randsets(spec, rec):
    log = hooks.MonitorLog()
    hooks.install_textual_contract(log)
    rng = gen.rng_for(spec['seed'], 'c06-sets', spec['part'])
    vs = tables.versions()
    for i in range(spec['nsets']):
        v = rng.choice(vs)
        ec = gen.delimiter_set(rng, v)
        letters = er7ref.letters_for(v)
        classes = textual_classes(v)
        name = rng.choice(sorted(classes))
        # related sets follow in the same process (a cache keyed by an incomplete part of the set would answer wrongly)
        rel = dict(ec)
        a, b = rng.sample(['FIELD', 'COMPONENT', 'SUBCOMPONENT', 'REPETITION', 'ESCAPE'], 2)
        rel[a], rel[b] = rel[b], rel[a]
        rel2 = dict(ec, FIELD=rng.choice([c for c in '!$%*+;<=>?@' if c not in ec.values()]))
        rels = [rel, rel2]
        if er7ref.vkey(v) >= (2, 7):
            # the same five characters with, without and with another truncation character
            free = [c for c in '!$%*+;<=>?@#' if c not in ec.values()]
            t1, t2 = rng.sample(free, 2)
            base5 = dict((k, c) for k, c in ec.items() if k != 'TRUNCATION')
            rels += [dict(base5, TRUNCATION=t1), dict(base5), dict(base5, TRUNCATION=t2), dict(base5, TRUNCATION=t1)]
            rec.count('truncation_related_sets', 4)
        for e2 in rels:
            al2 = alphabet(e2)
            if er7ref.vkey(v) >= (2, 7):
                al2 = al2 + [t1, t2]
            for _ in range(40):
                x = ''.join(rng.choice(al2) for _ in range(rng.randint(2, 7)))
                judge(classes[name], name, v, x, e2, letters, rec)
        alpha = alphabet(ec)
        small = [ec['FIELD'], ec['ESCAPE'], rng.choice(er7ref.delimiters(ec)[1:]), rng.choice('HEFL'), 'x']
        for l in range(0, 5):
            for t in itertools.product(small, repeat=l):
                judge(classes[name], name, v, ''.join(t), ec, letters, rec)
        for _ in range(150):
            x = ''.join(rng.choice(alpha) for _ in range(rng.randint(5, 9)))
            judge(classes[name], name, v, x, ec, letters, rec)
        rec.seen('escape_chars', ec['ESCAPE'])
        rec.count('random_sets')
        if i == 0:
            rec.sample({'kind': 'randset', 'version': v, 'ec': hooks._ec_str(ec), 'cls': name})
    drain(log, rec, 'mixed')


def judge_highlights(cls, clsname, version, x, ranges, ec, letters, rec):
    """a textual leaf created with highlights=: the \\H\\ ... \\N\\ markers go around the raw text of each range, and the
    encoding is delimiter-safe and made of whole escape sequences like any other"""
    case = {'kind': 'highlights', 'version': version, 'cls': clsname, 'ec': ec, 'value': x, 'ranges': [list(r) for r in ranges]}
    rec.evaluation((clsname, version, hooks._ec_str(ec), x, tuple(ranges)), True)
    try:
        obj = cls(x, highlights=tuple(ranges))
        y = obj.to_er7(ec)
    except Exception as e:
        rec.violation('encode-raised:%s' % type(e).__name__, case, {'exc': repr(e)[:200]})
        return
    rec.count('highlight_cases')
    if not _judge_highlighted(x, y, ranges, ec, letters, rec, case):
        return
    # the same object encoded once more under a set with another escape character (a value shared by two messages)
    free = [c for c in '!$%*+;<=>?@' if c not in ec.values() and c not in x]
    if free:
        ec2 = dict(ec, ESCAPE=free[0])
        try:
            y2 = obj.to_er7(ec2)
        except Exception as e:
            rec.violation('encode-raised:%s' % type(e).__name__, dict(case, ec=ec2), {'exc': repr(e)[:200]})
            return
        rec.count('highlight_cases_second_set')
        _judge_highlighted(x, y2, ranges, ec2, letters, rec, dict(case, ec=ec2, second_encoding=True))


def _judge_highlighted(x, y, ranges, ec, letters, rec, case):
    if not er7ref.well_formed(y, ec, letters):
        rec.violation(classify_illformed(x, y, ec, letters), case, {'encoded': y})
        return False
    if ec['ESCAPE'] not in x:
        esc = ec['ESCAPE']
        out = []
        for i, ch in enumerate(x):
            for a, b in ranges:
                if b == i:
                    out.append(esc + 'N' + esc)
            for a, b in ranges:
                if a == i:
                    out.append(esc + 'H' + esc)
            out.append(er7ref.ref_escape(ch, ec, letters))
        for a, b in ranges:
            if b >= len(x):
                out.append(esc + 'N' + esc)
        want = ''.join(out)
        if y != want:
            rec.violation('content-not-preserved', case, {'encoded': y, 'expected': want})
            return False
    return True


def run_long(spec, rec):
    rng = gen.rng_for(spec['seed'], 'c06-long', spec['part'])
    vs = tables.versions()
    for i in range(spec['n']):
        v = rng.choice(vs)
        ec = er7ref.std(v) if rng.random() < 0.5 else gen.delimiter_set(rng, v)
        letters = er7ref.letters_for(v)
        classes = textual_classes(v)
        name = rng.choice(sorted(classes))
        alpha = alphabet(ec) + list('abXY09.')
        n = rng.randint(7, 40)
        if i % 40 == 0:
            # a report-sized leaf: hundreds of delimiters, escape sequences and lone escape characters in one value
            n = rng.choice([257, 300, 520, 1100, 2100])
            alpha = alphabet(ec)
            rec.count('very_long_strings')
        x = ''.join(rng.choice(alpha) for _ in range(n))
        judge(classes[name], name, v, x, ec, letters, rec)
        if i % 6 == 1 and 2 <= len(x) <= 60:
            cuts = sorted(rng.sample(range(len(x) + 1), min(4, len(x) + 1)))
            ranges = [(cuts[k], cuts[k + 1]) for k in range(0, len(cuts) - 1, 2) if cuts[k] < cuts[k + 1]]
            if ranges:
                judge_highlights(classes[name], name, v, x, ranges, ec, letters, rec)
    rec.count('long_strings', spec['n'])


def run_assign(spec, rec):
    """a value assigned through a datatype object never changes the number of fields/components/sub-components"""
    from hl7apy import core
    log = hooks.MonitorLog()
    hooks.install_textual_contract(log)
    v = spec['version']
    rng = gen.rng_for(spec['seed'], 'c06-assign', v)
    classes = textual_classes(v)
    from .. import structref
    prev = None
    for i in range(spec['n']):
        ec = gen.full_ec(er7ref.std(v)) if i % 3 == 0 else gen.delimiter_set(rng, v)
        if prev is not None and i % 4 == 1:
            # a set related to the previous one: same characters with two roles exchanged, or only FIELD changed
            ec = dict(prev)
            if rng.random() < 0.5:
                a, b = rng.sample(['FIELD', 'COMPONENT', 'SUBCOMPONENT', 'REPETITION', 'ESCAPE'], 2)
                ec[a], ec[b] = ec[b], ec[a]
            else:
                ec['FIELD'] = rng.choice([c for c in '!$%*+;<=>?@' if c not in ec.values()])
        prev = ec
        alpha = alphabet(ec) + list('ab')
        x = ''.join(rng.choice(alpha) for _ in range(rng.randint(1, 8)))
        name = 'ST' if 'ST' in classes else sorted(classes)[0]
        case = {'kind': 'assign', 'version': v, 'ec': ec, 'value': x, 'variant': i % 2}
        rec.evaluation(('assign', v, hooks._ec_str(ec), x, i % 2))
        try:
            m = core.Message('ADT_A01', version=v, encoding_chars=dict(ec))
            m.msh.msh_7 = '20200101'
            m.msh.msh_10 = 'id'
            pid = m.add_segment('PID')
            pid.pid_1 = '1'
            # PID_3 is complex in every version that has it as CX/CK; use an unnamed ST leaf via NTE-like text field
            pid.pid_5 = 'A%sB' % ec['COMPONENT']
            before = m.to_er7()
            dt = classes[name](x)
            if i % 2 == 0:
                comp = pid.pid_5[0].children.list[0]
                leaf = comp.children.list[0]
                if leaf.classname == 'SubComponent':
                    leaf.value = dt
                else:
                    leaf.children.list[0].value = dt
            else:
                m.msh.msh_10[0].value = dt   # SupportComplexDataType._set_value with a datatype object (ST field)
            after = m.to_er7()
        except Exception as e:
            rec.violation('assign-raised:%s' % type(e).__name__, case, {'exc': repr(e)[:200]})
            continue
        # the same assignment inside a segment that has no message: it encodes with the characters it is given
        try:
            seg = core.Segment('PID', version=v)
            seg.pid_1 = '1'
            seg.pid_5 = 'AB'
            nrep = 1 + (i // 2) % 3
            for r in range(1, nrep):
                # further repetitions of the field: they are encoded with the characters given, like the first
                seg.add_field('PID_5').value = 'CD%d' % r
            sbefore = seg.to_er7(dict(ec))
            node = seg.pid_5[(i // 6) % nrep]
            while node.children.list:
                node = node.children.list[0]
            node.value = dt
            safter = seg.to_er7(dict(ec))
        except Exception as e:
            rec.violation('assign-raised:%s' % type(e).__name__, dict(case, where='parentless segment'),
                          {'exc': repr(e)[:200]})
            continue
        rec.count('assign_shape_comparisons_parentless_segment')
        rec.count('assign_shape_comparisons_parentless_segment:repetitions=%d' % nrep)
        if er7ref.shape(er7ref.tokenize_segment(sbefore, ec)[1]) != er7ref.shape(er7ref.tokenize_segment(safter, ec)[1]):
            rec.violation('datatype-object-changed-counts', dict(case, where='parentless segment'),
                          {'before': sbefore, 'after': safter})
        tb = er7ref.tokenize_message(before, ec)[1]
        ta = er7ref.tokenize_message(after, ec)[1]
        sb = [(n, er7ref.shape(f)) for n, f in tb]
        sa = [(n, er7ref.shape(f)) for n, f in ta]
        rec.count('assign_shape_comparisons')
        if sa != sb:
            rec.violation('datatype-object-changed-counts', case, {'before': before[-60:], 'after': after[-80:]})
        if i == 0:
            rec.sample({'kind': 'assign', 'version': v, 'value': x, 'after': after[-60:]})
    drain(log, rec, v)


def run_shared(spec, rec):
    """one datatype object (a constant of the application) held by leaves of two messages that declare different delimiters,
    the two messages encoded by two threads: thread 0 is pre-empted at its j-th LINE event (every j up to the length of the
    call), thread 1 then runs its whole call.  Each encoding is the reference escaping under its own message's set."""
    from hl7apy import core
    from .. import sched
    v = spec['version']
    lib = tables.lib(v)
    rng = gen.rng_for(spec.get('seed', 0), 'c06-shared', v)
    for k in range(spec['n']):
        ecs = [gen.delimiter_set(rng, v), gen.delimiter_set(rng, v)]
        if ecs[0]['ESCAPE'] == ecs[1]['ESCAPE']:
            continue
        cls = rng.choice([c for c in ('ST', 'FT', 'TX') if c in lib.BASE_DATATYPES])
        raw = 'see c:' + ecs[0]['ESCAPE'] + 'tmp' + ecs[1]['ESCAPE'] + 'q' + ecs[0]['FIELD'] + ecs[1]['FIELD'] + \
            ecs[0]['COMPONENT'] + ecs[1]['REPETITION'] + 'x'
        case = {'kind': 'shared-object', 'version': v, 'cls': cls, 'raw': raw,
                'ecs': [{a: b for a, b in e.items() if a not in ('SEGMENT', 'GROUP')} for e in ecs]}
        try:
            obj = lib.BASE_DATATYPES[cls](raw)
            segs = []
            for ec in ecs:
                m = core.Message('ADT_A01', version=v, encoding_chars=dict(ec))
                z = core.Segment('ZZ9', version=v)
                m.add(z)
                z.zz9_2 = 'k'
                z.zz9_2[0].children.list[0].children.list[0].value = obj
                segs.append(z)
            want = ['ZZ9' + ec['FIELD'] * 2 + er7ref.ref_escape(raw, ec, er7ref.letters_for(v)) for ec in ecs]
            calls = [lambda z=z: z.to_er7() for z in segs]
            seq = [c() for c in calls]
        except Exception as e:
            rec.violation('shared-object-raised:%s' % type(e).__name__, case, {'exc': repr(e)[:160]})
            continue
        rec.evaluation(('shared-object', v, cls, raw, 'sequential'))
        if seq != want:
            rec.violation('shared-datatype-object-encoded-with-another-set', case, {'got': seq, 'want': want, 'how': 'sequential'})
            continue
        j = 0
        while True:
            j += 1
            out, bt, hung = sched.run_pair(calls[0], calls[1], {0: {'any': {j}}})
            if hung:
                rec.inconclusive_reason('shared-object schedule hung')
                break
            if not bt.trace:
                break       # j is past the last event of the call
            rec.count('shared_object_schedules')
            rec.evaluation(('shared-object', v, cls, raw, j))
            rec.seen('shared_object_switch_functions', '%s:%s' % (bt.trace[0][1], bt.trace[0][2]))
            if out != want:
                rec.violation('shared-datatype-object-encoded-with-another-set', case,
                              {'got': out, 'want': want, 'how': 'thread 0 pre-empted at its event %d (%s:%s:%s)' % (
                                  j, bt.trace[0][1], bt.trace[0][2], bt.trace[0][3])})
                break
    rec.seen('versions', v)


def run_shard(spec, rec):
    {'grid': run_grid, 'classes': run_classes, 'randsets': run_randsets, 'long': run_long,
     'assign': run_assign, 'shared': run_shared}[spec['kind']](spec, rec)


def replay(case, rec):
    if case['kind'] == 'string':
        v = case['version'] if case['version'] in tables.versions() else '2.5'
        ec = case['ec']
        if isinstance(ec, str):
            keys = ('FIELD', 'COMPONENT', 'SUBCOMPONENT', 'REPETITION', 'ESCAPE', 'TRUNCATION')
            ec = dict(zip(keys, ec))
        clsname = (case.get('cls') or 'ST').split('.')[-1]
        cls = textual_classes(v).get(clsname) or textual_classes(v)['ST']
        judge(cls, clsname, v, case['value'], ec, er7ref.letters_for(v), rec)
    elif case['kind'] == 'highlights':
        v = case['version'] if case['version'] in tables.versions() else '2.5'
        ec = {k: x for k, x in case['ec'].items()}
        if case.get('second_encoding'):
            # the first encoding happened under the set this one was derived from: any other escape character will do
            ec = dict(ec, ESCAPE=[c for c in '!$%*+;<=>?@' if c not in ec.values() and c not in case['value']][-1])
        cls = textual_classes(v).get(case['cls']) or textual_classes(v)['ST']
        judge_highlights(cls, case['cls'], v, case['value'], [tuple(r) for r in case['ranges']], ec, er7ref.letters_for(v), rec)
    elif case['kind'] == 'shared-object':
        run_shared({'version': case['version'], 'n': 6, 'seed': case.get('seed', 0)}, rec)
    else:
        rec.inconclusive_reason('assign cases replay through the tier run with the same seed')


def floors(tier, m):
    out = []
    c = m['counters']
    if c.get('shared_object_schedules', 0) < 500 and not m['violation_counts']:
        out.append('schedules over a shared datatype object: %s' % c.get('shared_object_schedules'))
    if len(m['seen'].get('grid_sets', ())) < 2:
        out.append('default delimiter grids not both run')
    if c.get('grid_strings', 0) < (2 * 11 ** 4):
        out.append('grid too small: %s' % c.get('grid_strings'))
    if c.get('random_sets', 0) < 50:
        out.append('fewer than 50 random delimiter sets')
    if c.get('textual_contract_evaluations', 0) == 0:
        out.append('contract on TextualDataType.to_er7 never evaluated')
    if c.get('assign_shape_comparisons', 0) < 500:
        out.append('too few datatype-object assignments compared')
    nv = len(tables.versions())
    if len({s.split()[0] for s in m['seen'].get('classes', ())}) != nv:
        out.append('textual classes of some version not exercised')
    return out
