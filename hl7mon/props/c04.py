"""C04 - validate() accepts conforming messages and pinpoints each structural defect.

Monitors:
* icontract post-condition on the real Validator.validate (record-and-return-True style): the element's encoding and shape
  are unchanged across the call and, with return_errors=True, is_valid is true exactly when the error list is empty;
* boundary checks by the harness: the three calling forms agree (two runs give the same report, the raising form raises
  exactly the first reported error and leaves the element unchanged, a report file lists exactly errors and warnings);
* structref builds a conforming instance from the tables through the public API (independently of the parser and of the
  validator) and knows which single-point mutation it applied and therefore which element an error must name.
"""
import io

from .. import tables, gen, structref, treeinv, hooks

ID = 'C04'
LEVEL = 'exploration'
NEEDS = ('icontract',)
RULE = ('every usable message structure of every version x {required-only, all-children} conforming instance built through the '
        'API x {no mutation, remove one required child, exceed one maximum cardinality, add a child the parent does not allow, '
        'add an unknown element} at message, group, segment and field level x reference in {standard tables, identity '
        'profile}; plus the shipped ITI-21 profile; non-trivial = validate() ran to a verdict and the contract evaluated; '
        'distinct = (version, structure, mode, mutation kind, mutated path, reference kind)')
ASSUMPTIONS = [
    'structures with a choice node / ANYHL7SEGMENT / malformed segment rows are counted and skipped; withdrawn (max 0) rows are '
    'never populated; a required group whose members are all optional gets its first member',
    '"naming the element": some error text contains the mutated child name (or, for an unnamed element, its parent name)',
    'tables and lengths only produce warnings and are not part of the verdict',
]

MUTATIONS = ('none', 'remove-required', 'exceed-maximum', 'not-allowed-child', 'unknown-element', 'refused-edit')


def plan(tier, seed):
    # shards partition the structure NAMES; a shard validates each of its names in every version defining it, in one
    # process (ascending or descending version order), so that anything remembered for one version is exposed by the next
    parts = 24 if tier == 'quick' else 48
    specs = [{'kind': 'structures', 'part': p, 'parts': parts,
              'modes': ['required'] if tier == 'quick' else ['required', 'all'],
              'per_kind': 1 if tier == 'quick' else 3, 'all_required': tier != 'quick'} for p in range(parts)]
    specs.append({'kind': 'iti21'})
    return specs


# ---------------------------------------------------------------- contract
_log = hooks.MonitorLog()


def install_contract():
    from hl7apy.validation import Validator
    if getattr(Validator, '_verif_contract', False):
        return
    import icontract
    orig = Validator.__dict__['validate'].__func__

    def capture(element):
        return (treeinv.er7_or_exc(element), treeinv.shape(element))

    def unchanged_and_consistent(element, return_errors, result, OLD):
        _log.count('validate_contract_evaluations')
        if capture(element) != OLD.state:
            _log.violation('validate-changed-the-element', before=OLD.state[0][:200],
                           after=treeinv.er7_or_exc(element)[:200])
        if return_errors:
            if result.is_valid != (not result.errors):
                _log.violation('is_valid-disagrees-with-errors', is_valid=result.is_valid, n_errors=len(result.errors))
        elif result is not True:
            _log.violation('non-raising-return-is-not-True', result=repr(result)[:80])
        return True

    wrapped = icontract.snapshot(capture, name='state')(
        icontract.ensure(unchanged_and_consistent, error=hooks.ContractBroken)(orig))
    Validator.validate = staticmethod(wrapped)
    Validator._verif_contract = True


# ---------------------------------------------------------------- conforming instance through the API
def populate_segment(s, v, seg, mode):
    n = 0
    for r in tables.segments(v)[seg]:
        if seg == 'MSH' and r.num in (1, 2):
            continue
        if r.card[1] == 0 or not r.ok:
            continue
        if r.card[0] >= 1 or mode == 'all':
            if seg == 'MSH' and r.num in (9, 12):
                continue
            setattr(s, r.name.lower(), structref.field_required_text(v, r))
            n += 1
    if n == 0 and seg != 'MSH':
        for r in tables.segments(v)[seg]:
            if r.card[1] != 0 and r.ok:
                setattr(s, r.name.lower(), structref.field_required_text(v, r))
                break


def fill(parent, node, v, mode, placed, path=()):
    """add required (or all) children of `node` to `parent`; placed collects (parent element, node, child element, path)"""
    emitted = 0
    for c in node.children:
        if c.card[1] == 0:
            continue
        if c.card[0] == 0 and mode == 'required':
            continue
        if mode == 'groups-entered' and c.card[0] == 0 and (c.kind == 'SEG' or any(
                x is not c and x.name == c.name and x.card[0] >= 1 for x in node.children)):
            continue      # optional groups are entered; optional segments (and optional namesakes of a required row) are not
        emitted += add_child(parent, c, v, mode, placed, path)
    return emitted


def add_child(parent, c, v, mode, placed, path):
    if c.kind == 'GRP':
        if not [x for x in c.children if x.card[1] != 0]:
            return 0          # a group the table leaves without members (e.g. QBP_Q13_QBP in v2.4) cannot be instantiated
        g = parent.add_group(c.name)
        n = fill(g, c, v, mode, placed, path + (c.name,))
        if n == 0:
            first = [x for x in c.children if x.card[1] != 0][0]
            add_child(g, first, v, 'required', placed, path + (c.name,))
        placed.append((parent, c, g, path))
    else:
        s = parent.msh if c.name == 'MSH' else parent.add_segment(c.name)
        populate_segment(s, v, c.name, mode)
        placed.append((parent, c, s, path))
    return 1


def build(core, v, name, node, mode, reference=None):
    m = core.Message(name, version=v, reference=reference)
    placed = []
    fill(m, node, v, mode, placed)
    m.msh.msh_9 = structref.msh9_for(v, name)
    m.msh.msh_12 = v
    # Message() stamps MSH-7 with now() as a single component; give it a value conforming to the version's own TS rows
    m.msh.msh_7 = structref.field_required_text(v, [r for r in tables.segments(v)['MSH'] if r.num == 7][0])
    if True:
        # a locally defined segment whose fields are typed with base datatypes that only some versions have: part of a
        # conforming instance (Z content is allowed anywhere), validated in the message's own version
        z = m.add_segment('ZV1')
        k = 0
        for dt in ('TN', 'DTM', 'GTS', 'SNM', 'TS', 'ST'):
            if dt in tables.base_datatypes(v):
                k += 1
                f = core.Field('ZV1_%d' % k, datatype=dt, version=v)
                f.value = gen.witness(v, dt)
                z.add(f)
    return m, placed


def report(m):
    r = m.validate(return_errors=True)
    return [str(e) for e in r.errors], [str(w) for w in r.warnings]


def forms_agree(m, rec, case):
    """two runs, raising form, report file"""
    before = (treeinv.er7_or_exc(m), treeinv.shape(m))
    r1 = report(m)
    r2 = report(m)
    if r1 != r2:
        rec.violation('two-validations-differ', case, {'first': str(r1)[:200], 'second': str(r2)[:200]})
        return None
    raised = None
    try:
        ret = m.validate()
    except Exception as e:
        raised = e
    if (treeinv.er7_or_exc(m), treeinv.shape(m)) != before:
        rec.violation('validate-changed-the-element', case, {'form': 'raising'})
        return None
    if r1[0]:
        if raised is None or str(raised) != r1[0][0] or type(raised).__name__ != 'ValidationError':
            rec.violation('raising-form-does-not-raise-the-first-error', case, {'raised': repr(raised)[:150],
                                                                                'first': r1[0][0]})
            return None
    elif raised is not None or ret is not True:
        rec.violation('raising-form-raised-without-errors', case, {'raised': repr(raised)[:150]})
        return None
    buf = io.StringIO()
    m.validate(report_file=buf, return_errors=True)
    want = ''.join('Error: %s\n' % e for e in r1[0]) + ''.join('Warning: %s\n' % w for w in r1[1])
    if buf.getvalue() != want:
        rec.violation('report-file-differs-from-report', case, {'file': buf.getvalue()[:200], 'want': want[:200]})
        return None
    # "any object with a write method" (the docstring of validate) and a path
    class WriteOnly(object):
        def __init__(self):
            self.parts = []

        def write(self, text):
            self.parts.append(text)
    wo = WriteOnly()
    try:
        m.validate(report_file=wo, return_errors=True)
    except Exception as e:
        rec.violation('report-file-object-with-write-only-raised:%s' % type(e).__name__, case, {'exc': repr(e)[:200]})
        return None
    if ''.join(wo.parts) != want:
        rec.violation('report-file-differs-from-report', case, {'file': ''.join(wo.parts)[:200], 'want': want[:200],
                                                               'kind': 'write-only object'})
        return None
    # a collecting object that is empty - hence false in a boolean context - until the first line is written (a list with a
    # write method, a buffer with __len__)
    class Lines(list):
        def write(self, text):
            self.append(text)

    class Sized(object):
        def __init__(self):
            self.parts = []

        def __len__(self):
            return len(self.parts)

        def write(self, text):
            self.parts.append(text)
    for sink in (Lines(), Sized()):
        try:
            m.validate(report_file=sink, return_errors=True)
        except Exception as e:
            rec.violation('report-file-object-with-write-only-raised:%s' % type(e).__name__, case, {'exc': repr(e)[:200]})
            return None
        got = ''.join(sink if isinstance(sink, list) else sink.parts)
        if got != want:
            rec.violation('report-file-differs-from-report', case, {'file': got[:200], 'want': want[:200],
                                                                   'kind': 'empty collecting object (%s)' % type(sink).__name__})
            return None
    rec.count('report_objects_empty_at_first')
    global _report_paths
    _report_paths += 1
    if _report_paths % 50 == 1:
        import os
        import tempfile
        fd, path = tempfile.mkstemp(prefix='hl7mon-report-', suffix='.txt')
        os.close(fd)
        try:
            m.validate(report_file=path, return_errors=True)
            got = open(path).read()
        finally:
            os.remove(path)
        if got != want:
            rec.violation('report-file-differs-from-report', case, {'file': got[:200], 'want': want[:200], 'kind': 'path'})
            return None
    rec.count('forms_compared')
    return r1


_report_paths = 0


def drain(rec, case_hint):
    for kind, d in _log.drain():
        rec.violation('contract:' + kind, dict(case_hint), d)
    rec.counters['validate_contract_evaluations'] = _log.counts.get('validate_contract_evaluations', 0)


def _remove(parent, el, k):
    """the public spellings of 'take this child out'"""
    j = [id(c) for c in parent.children.list].index(id(el))
    k = k % 4
    if k == 0:
        parent.children.remove(el)
        return 'children.remove'
    if k == 1:
        del parent.children[j]
        return 'del children[i]'
    if k == 2:
        parent.children.pop(j)
        return 'children.pop(i)'
    same = [c for c in parent.children.list if c.name == el.name]
    if len(same) == 1 and el.name:
        delattr(parent, el.name.lower())
        return 'del parent.<name>'
    parent.children.remove(el)
    return 'children.remove'


def mutate(core, rng, v, m, placed, kind, node, pick=None):
    """apply one single-point mutation; -> (names any of which an error must mention, description) or None.
    pick = (i, only_duplicated_names): the i-th required segment/group child instead of a random candidate"""
    if kind == 'remove-required' and pick is not None:
        dup = duplicate_names(node)
        cands = [(parent, c.name, el) for parent, c, el, path in placed
                 if c.card[0] >= 1 and c.name != 'MSH' and len(parent.children.indexes.get(c.name, [])) == 1 and
                 (not pick[1] or c.name in dup)]
        if pick[0] >= len(cands):
            return None
        parent, cname, el = cands[pick[0]]
        how = _remove(parent, el, pick[0] + len(cname))
        return [cname], '%s of %s removed (%s)' % (cname, parent.name, how)
    if kind == 'remove-required':
        cands = []
        for parent, c, el, path in placed:
            if c.card[0] >= 1 and c.name != 'MSH' and len(parent.children.indexes.get(c.name, [])) == 1:
                cands.append(('child', parent, c.name, el))
            if c.kind == 'SEG':
                for r in tables.segments(v)[c.name]:
                    if r.card[0] >= 1 and r.ok and r.card[1] != 0 and not (c.name == 'MSH' and r.num in (1, 2, 9, 12)):
                        cands.append(('field', el, r.name, None))
        # field level: a required component of a populated complex field
        for parent, c, el, path in placed:
            if c.kind != 'SEG':
                continue
            for r in tables.segments(v)[c.name]:
                if r.kind == 'sequence' and r.ok and len(el.children.indexes.get(r.name, [])) == 1:
                    f = el.children.indexes[r.name][0]
                    for cr in tables.components(v, r.datatype):
                        if cr.card[0] >= 1 and cr.ok and len(f.children.indexes.get(cr.name, [])) == 1 and \
                                len(f.children.list) > 1:
                            cands.append(('component', f, cr.name, None))
        if not cands:
            return None
        comp = [x for x in cands if x[0] == 'component']
        what, parent, cname, el = rng.choice(comp) if comp and rng.random() < 0.3 else rng.choice(cands)
        lst = parent.children.indexes.get(cname, [])
        if len(lst) != 1:
            return None
        how = _remove(parent, lst[0], rng.randrange(4))
        return [cname], '%s of %s removed (%s)' % (cname, parent.name, how)
    if kind == 'exceed-maximum':
        cands = []
        for parent, c, el, path in placed:
            if c.card[1] == 1 and c.name != 'MSH':
                cands.append(('child', parent, c, el))
            if c.kind == 'SEG':
                for r in tables.segments(v)[c.name]:
                    if r.card[1] == 1 and r.ok and el.children.indexes.get(r.name) and \
                            not (c.name == 'MSH' and r.num in (1, 2)):
                        cands.append(('field', el, r, None))
        for parent, c, el, path in placed:
            if c.kind != 'SEG':
                continue
            for r in tables.segments(v)[c.name]:
                if r.kind == 'sequence' and r.ok and len(el.children.indexes.get(r.name, [])) == 1:
                    f = el.children.indexes[r.name][0]
                    for cr in tables.components(v, r.datatype):
                        if cr.card[1] == 1 and cr.ok and cr.kind == 'leaf' and f.children.indexes.get(cr.name):
                            cands.append(('component', f, cr, None))
        if not cands:
            return None
        comp = [x for x in cands if x[0] == 'component']
        what, parent, c, el = rng.choice(comp) if comp and rng.random() < 0.3 else rng.choice(cands)
        if what == 'component':
            extra = core.Component(c.name, version=v)
            extra.value = gen.witness(v, c.datatype)
            parent.add(extra)
            return [c.name], 'second %s in field %s' % (c.name, parent.name)
        if what == 'child':
            add_child(parent, c, v, 'required', [], ())
            return [c.name], 'second %s under %s' % (c.name, parent.name)
        f = parent.add_field(c.name)
        f.value = structref.field_required_text(v, c)
        return [c.name], 'second %s in %s' % (c.name, parent.name)
    if kind == 'not-allowed-child':
        groups = [(m, node)] + [(el, c) for parent, c, el, path in placed if c.kind == 'GRP']
        parent, pnode = rng.choice(groups)
        allowed = {c.name for c in pnode.children}
        segs = sorted(s for s, rows in tables.segments(v).items() if rows and s not in allowed and s != 'MSH' and
                      not s.startswith('Z'))
        other = rng.choice(segs)
        s = core.Segment(other, version=v)
        populate_segment(s, v, other, 'required')
        parent.add(s)
        return [other], 'foreign segment %s under %s' % (other, parent.name)
    if kind == 'refused-edit':
        # a REFUSED replacement of a required child (element built for another version) must leave a valid message valid
        cands = [(parent, c, el) for parent, c, el, path in placed if c.kind == 'SEG' and c.name != 'MSH' and
                 len(parent.children.indexes.get(c.name, [])) == 1]
        if not cands:
            return None
        parent, c, el = rng.choice(cands)
        vs = tables.versions()
        ov = [x for x in vs if x != v and tables.segments(x).get(c.name)]
        if not ov:
            return None
        other = core.Segment(c.name, version=ov[len(c.name) % len(ov)])
        try:
            setattr(parent, c.name.lower(), other)
        except Exception:
            return [], 'refused replacement of %s under %s' % (c.name, parent.name)
        return None
    if kind == 'unknown-element':
        segs = [(el, c) for parent, c, el, path in placed if c.kind == 'SEG']
        el, c = rng.choice(segs)
        f = core.Field(version=v)
        f.value = 'q'
        el.add(f)
        return [c.name], 'unnamed field in %s' % c.name
    return None


def judge(core, rng, v, name, node, mode, kind, refkind, rec, reference=None, pick=None):
    case = {'version': v, 'structure': name, 'mode': mode, 'mutation': kind, 'reference': refkind}
    row = '%s|%s' % (v, name)
    try:
        m, placed = build(core, v, name, node, mode, reference)
    except Exception as e:
        rec.evaluation((v, name, mode, kind, refkind), nontrivial=False)
        rec.violation('build-raised:%s' % type(e).__name__, case, {'exc': repr(e)[:200]}, row=row)
        return
    desc = None
    names = None
    errors_before = None
    if kind == 'refused-edit':
        try:
            errors_before = report(m)[0]
        except Exception:
            errors_before = None
    if kind != 'none':
        try:
            res = mutate(core, rng, v, m, placed, kind, node, pick)
        except Exception as e:
            rec.violation('mutation-raised:%s:%s' % (kind, type(e).__name__), case, {'exc': repr(e)[:200]}, row=row)
            return
        if res is None:
            rec.count('mutation_not_applicable:%s' % kind)
            return False
        names, desc = res
        case['mutated'] = desc
    rec.evaluation((v, name, mode, kind, desc, refkind))
    try:
        r = forms_agree(m, rec, case)
    except Exception as e:
        rec.violation('validate-raised:%s' % type(e).__name__, case, {'exc': repr(e)[:200]}, row=row)
        return
    if r is None:
        return
    errors = r[0]
    rec.count('verdicts:%s' % kind)
    if kind == 'refused-edit':
        if errors_before is not None and errors != errors_before:
            rec.violation('refused-edit-changed-the-verdict', case, {'mutated': desc, 'before': errors_before[:3],
                                                                    'after': errors[:3]}, row=row)
    elif kind == 'none':
        if errors:
            dup = duplicate_names(node)
            cause = 'conforming-instance-rejected'
            if dup and all(any(d in e for d in dup) and 'Child limit exceeded' in e for e in errors):
                cause = 'structure-lists-a-child-name-twice'
            rec.violation(cause, case, {'errors': errors[:3]}, row=row)
    else:
        if not errors:
            rec.violation('mutation-accepted:%s' % kind, case, {'mutated': desc}, row=row)
        elif not any(any(n in e for n in names) for e in errors):
            rec.violation('error-does-not-name-the-element:%s' % kind, case, {'mutated': desc, 'errors': errors[:3]},
                          row=row)


def differential_removals(core, v, name, node, rec):
    """structures holding a choice group or a pseudo segment have no agreed conformance semantics here, so no instance is
    known to be conforming; what can still be judged is the *difference*: taking the only occurrence of a required segment or
    group out of an otherwise unchanged instance must add a 'Missing required child' error naming it"""
    row = '%s|%s' % (v, name)
    for i in range(60):
        case = {'version': v, 'structure': name, 'mode': 'all-members-of-choices', 'mutation': 'remove-required',
                'reference': 'standard', 'differential': i}
        try:
            m, placed = build(core, v, name, node, 'groups-entered')
            e0 = report(m)[0]
            res = mutate(core, None, v, m, placed, 'remove-required', node, pick=(i, False))
            if res is None:
                return
            names, desc = res
            e1 = report(m)[0]
        except Exception:
            rec.count('differential_instances_not_buildable')
            return
        rec.evaluation((v, name, 'differential', desc))
        rec.count('differential_removals')

        def hits(errs):
            return sum(1 for e in errs if 'Missing required child' in e and any(e.endswith('.' + n) or n in e for n in names))
        if hits(e1) <= hits(e0):
            rec.violation('removed-required-child-not-reported', dict(case, mutated=desc),
                          {'mutated': desc, 'before': e0[:4], 'after': e1[:4]}, row=row)
            return


def duplicate_names(node):
    out = set()
    for n in tables.walk_nodes(node):
        if n.kind in ('GRP', 'MSG'):
            names = [c.name for c in n.children]
            out |= {x for x in names if names.count(x) > 1}
    return out


def run_structures(spec, rec):
    from hl7apy import core
    install_contract()
    rng = gen.rng_for(spec['seed'], 'c04', spec['part'])
    vs = tables.versions()
    allnames = sorted({n for v in vs for n in tables.messages(v)})
    mine = [n for i, n in enumerate(allnames) if i % spec['parts'] == spec['part']]
    todo = []
    for j, name in enumerate(mine):
        having = [v for v in vs if name in tables.messages(v)]
        todo.extend((name, v) for v in (having[::-1] if j % 2 else having))
    import hl7apy
    base_default = hl7apy.get_default_version()
    for name, v in todo:
        # the process-wide default version is not an input of validate(): it is set as far from the message's own version as
        # the library allows
        hl7apy.set_default_version(vs[0] if tables.versions().index(v) >= len(vs) // 2 else vs[-1])
        msgs = tables.messages(v)
        rec.seen('versions', v)
        node = msgs[name]
        why = structref.unusable_reason(v, node)
        if why is None and structref.msh9_for(v, name) is None:
            why = 'unnameable-in-MSH-9'
        if why:
            rec.count('structures_skipped:' + why.split(':')[0])
            if why == 'choice-or-pseudo-segment' and structref.msh9_for(v, name) and \
                    (spec.get('all_required') or duplicate_names(node)):
                differential_removals(core, v, name, node, rec)
            continue
        rec.count('structures_used')
        for mode in spec['modes']:
            judge(core, rng, v, name, node, mode, 'none', 'standard', rec)
            for kind in MUTATIONS[1:]:
                for _ in range(spec['per_kind']):
                    judge(core, rng, v, name, node, mode, kind, 'standard', rec)
            # every required segment / group child in turn (quick tier: the ones whose name the structure lists twice)
            only_dup = not spec.get('all_required', False)
            if not only_dup or duplicate_names(node):
                for i in range(60):
                    if judge(core, rng, v, name, node, mode, 'remove-required', 'standard', rec,
                             pick=(i, only_dup)) is False:
                        break
                    rec.count('required_children_removed_in_turn')
        # identity profile: the standard structure handed in as a message profile must change nothing
        if rng.random() < 0.25:
            prof = {name: tables.lib(v).MESSAGES[name]}
            judge(core, rng, v, name, node, 'required', 'none', 'identity-profile', rec, reference=prof)
            judge(core, rng, v, name, node, 'required', rng.choice(MUTATIONS[1:]), 'identity-profile', rec,
                  reference=prof)
        if rec.counters.get('structures_used', 0) <= 1:
            rec.sample({'version': v, 'structure': name, 'modes': spec['modes'], 'mutations': list(MUTATIONS)})
    hl7apy.set_default_version(base_default)
    drain(rec, {'structure': 'any'})


def run_iti21(spec, rec):
    """the shipped ITI-21 message profile: conforming text validates, mutations are pinpointed"""
    import os
    import hl7apy
    from hl7apy import parser
    from .. import env
    install_contract()
    path = os.path.join(env.REPO, 'tests', 'profiles', 'iti_21')
    if not os.path.exists(path):
        rec.inconclusive_reason('shipped profile not found')
        return
    mp = hl7apy.load_message_profile(path)
    base = 'MSH|^~\\&|SENDING APP|SENDING FAC|REC APP|REC FAC|20110708162817||RSP^K22^RSP_K21|1|D|2.5|||||ITA||EN\r' \
           'MSA|AA|26775702551812240|\rQAK|111069|OK||1|1|0\rQPD|IHE PDQ Query|111069|@PID.5.1.1^SMITH||||\r' \
           'PID|1||10101109091948^^^GATEWAY&1.3.6.1.4.1.21367.2011.2.5.17&ISO||JOHN^SMITH^^^^^A||19690113|M|||' \
           'VIA DELLE VIE^^CAGLIARI^^^100^H^^092009||||||||||||CAGLIARI|||\r'
    cases = [('none', base, None),
             ('remove-required', base.replace('MSA|AA|26775702551812240|\r', ''), 'MSA'),
             ('remove-required', base.replace('QAK|111069|OK||1|1|0\r', ''), 'QAK'),
             ('exceed-maximum', base.replace('MSA|AA|26775702551812240|\r', 'MSA|AA|1|\rMSA|AA|2|\r'), 'MSA'),
             ('not-allowed-child', base + 'OBR|1\r', 'OBR')]
    for kind, text, named in cases:
        case = {'profile': 'iti_21', 'mutation': kind, 'text': text}
        rec.evaluation(('iti21', kind, named))
        try:
            m = parser.parse_message(text, message_profile=mp)
            r = forms_agree(m, rec, case)
        except Exception as e:
            rec.violation('iti21-raised:%s' % type(e).__name__, case, {'exc': repr(e)[:200]})
            continue
        if r is None:
            continue
        rec.count('iti21_verdicts')
        # the forced validation of parse_message (with and without the profile) writes the same report to a report file and
        # raises the first error
        for prof in (mp, None):
            buf = io.StringIO()
            raised = None
            try:
                parser.parse_message(text, message_profile=prof, force_validation=True, report_file=buf)
            except Exception as e:
                raised = e
            expect = report(parser.parse_message(text, message_profile=prof))
            lines = [l for l in buf.getvalue().splitlines() if l.strip()]
            want_lines = ['Error: %s' % e for e in expect[0]] + ['Warning: %s' % w for w in expect[1]]
            rec.count('forced_validation_report_checks')
            if sorted(lines) != sorted(want_lines):
                rec.violation('forced-validation-report-file-differs', dict(case, with_profile=prof is not None),
                              {'file_lines': lines[:3], 'expected': want_lines[:3]})
                break
            if bool(expect[0]) != (raised is not None) or (raised is not None and str(raised) != expect[0][0]):
                rec.violation('forced-validation-raising-form-differs', dict(case, with_profile=prof is not None),
                              {'raised': repr(raised)[:100], 'first_error': expect[0][:1]})
                break
        if kind == 'none' and r[0]:
            rec.violation('conforming-instance-rejected:profile', case, {'errors': r[0][:3]})
        elif kind != 'none' and not any(named in e for e in r[0]):
            rec.violation('error-does-not-name-the-element:%s:profile' % kind, case, {'errors': r[0][:3]})
    drain(rec, {'profile': 'iti_21'})
    rec.sample({'kind': 'iti21', 'cases': [c[0] for c in cases]})


def run_shard(spec, rec):
    {'structures': run_structures, 'iti21': run_iti21}[spec['kind']](spec, rec)


def replay(case, rec):
    from hl7apy import core
    install_contract()
    if 'profile' in case:
        run_iti21({}, rec)
        return
    v, name = case['version'], case['structure']
    rng = gen.rng_for(0, 'replay')
    ref = {name: tables.lib(v).MESSAGES[name]} if case.get('reference') == 'identity-profile' else None
    for _ in range(20 if case['mutation'] != 'none' else 1):
        judge(core, rng, v, name, tables.messages(v)[name], case['mode'], case['mutation'], case.get('reference'), rec,
              reference=ref)
    drain(rec, case)


def floors(tier, m):
    out = []
    c = m['counters']
    if c.get('report_objects_empty_at_first', 0) < 100 and not m['violation_counts']:
        out.append('report objects that are empty at first: %s' % c.get('report_objects_empty_at_first'))
    if c.get('structures_used', 0) < 600:
        out.append('fewer than 600 structures')
    for k in MUTATIONS:
        if c.get('verdicts:%s' % k, 0) < 100:
            out.append('mutation kind %s judged only %d times' % (k, c.get('verdicts:%s' % k, 0)))
    if c.get('validate_contract_evaluations', 0) == 0:
        out.append('contract on Validator.validate never evaluated')
    if c.get('iti21_verdicts', 0) < 3:
        out.append('ITI-21 profile not exercised')
    return out
