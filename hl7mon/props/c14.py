"""C14 - name, long name, position and letter case all address the same child.

Monitor: identity (`is`) of the element reached through each spelling after a write through one spelling; reads and deletes
through the others.  tables.py supplies number <-> long name and excludes long names that are duplicated within the parent
or collide with the element's own attribute names.
"""
from .. import tables, gen
from . import c02

ID = 'C14'
LEVEL = 'exploration'
EXHAUSTIVE = True
RULE = ('exhaustive: every (version, segment, field row) written through one spelling (rotating over lower / upper / mixed case '
        'of the HL7 name and of the long name) and read and deleted through all others; every (version, field datatype, '
        'component row) and sub-component row likewise plus the positional paths <seg>_<i>_<j>[_<k>] from the field; negative '
        'cases: names of children of other parents, indices beyond the table, positional paths beyond the datatype; '
        'non-trivial = spelling differs from the canonical upper-case name or the operation is not a read; distinct = '
        '(version, parent, child row, spelling, operation)')
ASSUMPTIONS = [
    'long names are judged only where unique within the parent and not an attribute of the element class (as the statement says)',
    'rows recorded as malformed by C02 are reported under the same row keys',
]


def plan(tier, seed):
    specs = []
    for v in tables.versions():
        specs.append({'kind': 'fields', 'version': v})
        specs.append({'kind': 'components', 'version': v})
    specs += [{'kind': 'cross', 'part': p, 'parts': 4} for p in range(4)]
    return specs


def mixed(s):
    return ''.join(c.upper() if i % 2 else c.lower() for i, c in enumerate(s))


def long_ok(cls, long_name, rows):
    if not long_name:
        return False
    if sum(1 for r in rows if r.long_name == long_name) != 1:
        return False
    ln = long_name.lower()
    return ln not in cls.cls_attrs and not hasattr(cls, ln) and not hasattr(cls, long_name)


def spellings(cls, row, rows, extra=()):
    out = [('name-lower', row.name.lower()), ('name-upper', row.name.upper()), ('name-mixed', mixed(row.name))]
    if long_ok(cls, row.long_name, rows):
        out += [('long-lower', row.long_name.lower()), ('long-upper', row.long_name.upper()),
                ('long-mixed', mixed(row.long_name))]
    return out + list(extra)


def alias_check(parent_factory, cls, row, rows, value, rec, rowkey, case, k, extra=()):
    """write through spelling k (rotating), read through all, delete through another"""
    sp = spellings(cls, row, rows, extra)
    wkind, wname = sp[k % len(sp)]
    try:
        p = parent_factory()
        setattr(p, wname, value)
        lst = p.children.indexes.get(row.name, [])
        if len(lst) != 1:
            rec.violation('write-did-not-create-the-named-child:%s' % wkind, case, {'spelling': wname,
                                                                                   'found': len(lst)}, row=rowkey)
            return
        tgt = lst[0]
        for rkind, rname in sp:
            rec.evaluation((rowkey, wkind, rkind, 'read'), nontrivial=rkind != 'name-upper')
            got = getattr(p, rname)
            rec.count('identity_comparisons')
            if got is None or len(got) != 1 or got[0] is not tgt:
                rec.violation('alias-mismatch:%s' % rkind.split('-')[0], case, {'written_as': wname, 'read_as': rname,
                                                                              'got': repr(got)[:100]}, row=rowkey)
                return
        dkind, dname = sp[(k + 1) % len(sp)]
        rec.evaluation((rowkey, wkind, dkind, 'delete'))
        delattr(p, dname)
        if p.children.indexes.get(row.name) or len(p.children.list) != 0:
            rec.violation('delete-through-alias-left-child:%s' % dkind.split('-')[0], case, {'deleted_as': dname},
                          row=rowkey)
            return
        rec.count('rows_aliased')
        # an element that belongs to another parent, assigned through this spelling, is copied: the other parent keeps it
        src = parent_factory()
        setattr(src, row.name.lower(), value)
        child = src.children.indexes[row.name][0]
        dst = parent_factory()
        setattr(dst, wname, child)
        rec.count('element_assignments_through_aliases')
        kept = src.children.indexes.get(row.name, [])
        got = dst.children.indexes.get(row.name, [])
        if len(kept) != 1 or kept[0] is not child or child.parent is not src or len(got) != 1 or got[0] is child or \
                got[0].to_er7() != child.to_er7():
            rec.violation('assignment-through-alias-did-not-copy:%s' % wkind.split('-')[0], case,
                          {'written_as': wname, 'source_keeps': len(kept), 'target_has': len(got)}, row=rowkey)
            return
        # a base datatype object (instead of text) written through this spelling reaches the same child, where the child is
        # of a base datatype
        if row.kind == 'leaf' and row.datatype in ('ST', 'ID', 'IS', 'SI', 'NM', 'TX', 'FT'):
            from hl7apy.factories import datatype_factory
            p2 = parent_factory()
            obj = datatype_factory(row.datatype, value.split('^')[-1].split('&')[-1], getattr(p2, 'version'), 2)
            setattr(p2, wname, obj)
            got2 = p2.children.indexes.get(row.name, [])
            rec.count('datatype_objects_written_through_aliases')
            if len(got2) != 1 or len(p2.children.list) != 1:
                rec.violation('datatype-object-through-alias-misplaced:%s' % wkind.split('-')[0], case,
                              {'written_as': wname, 'children': [c.name for c in p2.children.list]}, row=rowkey)
                return
        if row.card[1] == -1:
            # with repetitions: a write through any spelling replaces the first one, and every spelling then lists the same
            # children in the order the parent holds them
            p = parent_factory()
            setattr(p, row.name.lower(), value)
            getattr(p, row.name.lower())[1] = value
            getattr(p, row.name.lower())[2] = value
            setattr(p, wname, value)
            order = [id(c) for c in p.children.list if c.name == row.name]
            for rkind, rname in sp:
                rec.evaluation((rowkey, wkind, rkind, 'read-repetitions'))
                got = [id(c) for c in getattr(p, rname)]
                rec.count('repetition_order_comparisons')
                if got != order or len(order) != 3:
                    rec.violation('alias-lists-repetitions-in-another-order:%s' % rkind.split('-')[0], case,
                                  {'written_as': wname, 'read_as': rname, 'positions': [order.index(x) if x in order else -1
                                                                                         for x in got]}, row=rowkey)
                    return
    except Exception as e:
        rec.violation('raised:%s' % type(e).__name__, case, {'exc': repr(e)[:200]}, row=rowkey)


def negative(p, name, rec, case, rowkey, what):
    from hl7apy.exceptions import ChildNotFound, ChildNotValid
    before = (len(p.children.list), sorted(p.children.indexes))
    rec.evaluation((rowkey, what, name, 'negative'))
    for mode in ('get', 'set'):
        try:
            if mode == 'get':
                r = getattr(p, name)
            else:
                setattr(p, name, 'x')
            rec.violation('foreign-name-accepted:%s:%s' % (what, mode), dict(case, name=name), {'parent': repr(p)},
                          row=rowkey)
            return
        except (ChildNotFound, ChildNotValid):
            rec.count('negative_cases_rejected')
        except Exception as e:
            rec.violation('foreign-name-raised-%s:%s' % (type(e).__name__, what), dict(case, name=name),
                          {'exc': repr(e)[:150]}, row=rowkey)
            return
    after = (len(p.children.list), sorted(k for k, v in p.children.indexes.items() if v))
    if after[0] != before[0]:
        rec.violation('foreign-name-created-something:%s' % what, dict(case, name=name), {'after': str(after)},
                      row=rowkey)


def leaf_component_check(core, v, seg, row, rec, k):
    rowkey = '%s|%s|%s|leaf-component' % (v, seg, row.name)
    case = {'kind': 'leaf-component', 'version': v, 'segment': seg, 'row': row.name}
    dt = row.datatype
    try:
        f = core.Field(row.name, version=v)
        if dt == 'varies':
            f.value = 'a^b'
            names = ['VARIES_1', 'VARIES_2']
        else:
            f.value = gen.witness(v, dt)
            names = [dt]
        for cname in names:
            lst = f.children.indexes.get(cname, [])
            if len(lst) != 1:
                rec.count('leaf_component_rows_without_named_component')
                return
            tgt = lst[0]
            sp = [('name-lower', cname.lower()), ('name-upper', cname.upper()), ('name-mixed', mixed(cname))]
            if dt != 'varies':
                sp += [('positional-lower', '%s_1' % row.name.lower()), ('positional-upper', '%s_1' % row.name.upper())]
            for rkind, rname in sp:
                rec.evaluation((rowkey, cname, rkind, 'read'), nontrivial=rkind != 'name-upper')
                got = getattr(f, rname)
                rec.count('identity_comparisons')
                if got is None or len(got) != 1 or got[0] is not tgt:
                    rec.violation('alias-mismatch:%s' % rkind.split('-')[0], case, {'read_as': rname, 'got': repr(got)[:100]},
                                  row=rowkey)
                    return
        # delete through an alias (rotating), the last named component first
        sp_d = [names[-1].lower(), mixed(names[-1]), names[-1].upper()][k % 3]
        rec.evaluation((rowkey, names[-1], sp_d, 'delete'))
        delattr(f, sp_d)
        if f.children.indexes.get(names[-1]):
            rec.violation('delete-through-alias-left-child:name', case, {'deleted_as': sp_d}, row=rowkey)
            return
        rec.count('leaf_component_rows_aliased')
    except Exception as e:
        rec.violation('raised:%s' % type(e).__name__, case, {'exc': repr(e)[:200]}, row=rowkey)


def long_name_signature(v, seg):
    rows = tables.segments(v).get(seg) or []
    return tuple(sorted((r.long_name, r.num) for r in rows if r.long_name))


def run_cross(spec, rec):
    """segments whose long names sit at different numbers in different versions, swept version after version in ONE
    process (ascending for half of them, descending for the others): what was resolved for one version must not answer
    for another"""
    from hl7apy import core
    vs = tables.versions()
    allsegs = sorted({s for v in vs for s, rows in tables.segments(v).items() if rows})
    mine = [s for i, s in enumerate(allsegs) if i % spec['parts'] == spec['part']]
    k = 0
    for seg in mine:
        present = [v for v in vs if tables.segments(v).get(seg)]
        if len({long_name_signature(v, seg) for v in present}) < 2:
            continue
        order = present if (len(seg) + ord(seg[0])) % 2 else present[::-1]
        rec.count('cross_version_segments')
        for v in order:
            rows = tables.segments(v)[seg]
            for row in rows:
                if not row.ok or (seg == 'MSH' and row.num in (1, 2)):
                    continue
                k += 1
                rowkey = '%s|%s|%s' % (v, seg, row.name)
                case = {'kind': 'cross', 'version': v, 'segment': seg, 'row': row.name, 'order': order, 'k': k}
                text, _, _ = c02.field_witness(v, row)
                alias_check(lambda: core.Segment(seg, version=v), core.Segment, row, rows, text, rec, rowkey, case, k)
            # a field number another version defines and this one does not must stay unknown here
            nums = {r.num for r in rows}
            for ov in present:
                extra = [r for r in tables.segments(ov)[seg] if r.num not in nums]
                if extra and rows[-1].datatype != 'varies':
                    negative(core.Segment(seg, version=v), extra[-1].name.lower(), rec,
                             {'kind': 'cross-negative', 'version': v, 'segment': seg, 'order': order},
                             '%s|%s' % (v, seg), 'field-number-of-another-version')
                    break
    rec.sample({'kind': 'cross', 'segments': mine[:5]})


def run_fields(spec, rec):
    from hl7apy import core
    v = spec['version']
    segs = tables.segments(v)
    names = sorted(s for s in segs if segs[s])
    k = 0
    for si, seg in enumerate(names):
        rows = segs[seg]
        for row in rows:
            if seg == 'MSH' and row.num in (1, 2):
                continue
            k += 1
            rowkey = '%s|%s|%s' % (v, seg, row.name)
            case = {'kind': 'field', 'version': v, 'segment': seg, 'row': row.name, 'k': k}
            if not row.ok and 'does not reference' in row.why:
                rec.violation('table-row-references-another-entry', case, {'why': row.why}, row=rowkey)
                continue
            if not row.ok:
                rec.evaluation((rowkey, 'malformed'))
                try:
                    s = core.Segment(seg, version=v)
                    setattr(s, row.name.lower(), 'x')
                    if getattr(s, row.name)[0] is not getattr(s, row.name.lower())[0]:
                        raise AssertionError('alias')
                except Exception as e:
                    rec.violation('malformed-table-row', case, {'exc': repr(e)[:150]}, row=rowkey)
                continue
            text, _, _ = c02.field_witness(v, row)
            alias_check(lambda: core.Segment(seg, version=v), core.Segment, row, rows, text, rec, rowkey, case, k)
        # the single component of a base-datatype field is addressed by the datatype name and by the positional path
        # <field>_1, in any letter case; the components of a varies field by VARIES_<n>
        for row in rows:
            if not row.ok or row.kind != 'leaf' or row.card[1] == 0 or (seg == 'MSH' and row.num in (1, 2)):
                continue
            leaf_component_check(core, v, seg, row, rec, k)
        rec.count('field_rows_enumerated', len([r for r in rows if not (seg == 'MSH' and r.num in (1, 2))]))
        # negative cases for this segment
        other = names[(si + 1) % len(names)]
        orow = segs[other][0]
        case = {'kind': 'negative', 'version': v, 'segment': seg}
        try:
            p = core.Segment(seg, version=v)
        except Exception:
            continue
        if other != seg:
            negative(p, orow.name.lower(), rec, case, '%s|%s' % (v, seg), 'field-of-another-segment')
            if long_ok(core.Segment, orow.long_name, segs[other]) and \
                    orow.long_name not in [r.long_name for r in rows]:
                negative(p, orow.long_name.lower(), rec, case, '%s|%s' % (v, seg), 'long-name-of-another-segment')
        if rows[-1].datatype != 'varies':
            negative(p, '%s_%d' % (seg.lower(), rows[-1].num + 1), rec, case, '%s|%s' % (v, seg), 'index-beyond-table')
    rec.count('field_rows_in_tables', sum(len(r) for r in segs.values() if r) - 2)
    rec.seen('versions', v)
    rec.sample({'kind': 'fields', 'version': v, 'example': 'seg.PiD_5 / seg.patient_name / seg.PATIENT_NAME -> same Field'})


def run_components(spec, rec):
    from hl7apy import core
    v = spec['version']
    hosts = c02._host_fields(v)
    k = 0
    n = 0
    prev_host = None
    for dt in tables.complex_datatypes(v):
        comps = tables.components(v, dt)
        host = hosts.get(dt)
        if not host:
            rec.count('datatypes_without_host_field')
        for crow in comps:
            n += 1
            if not host:
                continue
            k += 1
            rowkey = '%s|%s|%s' % (v, dt, crow.name)
            case = {'kind': 'component', 'version': v, 'host': host, 'row': crow.name, 'k': k}
            if not crow.ok:
                if 'does not reference' in crow.why:
                    # the row is wired to another entry: its long name / datatype are those of that entry
                    rec.violation('table-row-references-another-entry', case, {'why': crow.why}, row=rowkey)
                continue
            val = gen.witness(v, crow.datatype if crow.kind == 'leaf' else c02._first_leaf_dt(v, crow.datatype))
            if crow.kind == 'sequence':
                subs = [s for s in tables.components(v, crow.datatype) if s.ok and s.card[1] != 0 and s.kind == 'leaf']
                val = ('&' * (subs[0].num - 1) + gen.witness(v, subs[0].datatype)) if subs else val
            if crow.card[1] == 0:
                continue
            positional = [('positional-lower', '%s_%d' % (host.lower(), crow.num)),
                          ('positional-upper', '%s_%d' % (host.upper(), crow.num))]
            alias_check(lambda: core.Field(host, version=v), core.Field, crow, comps, val, rec, rowkey, case, k,
                        extra=positional)
            if prev_host and prev_host != host and k % 3 == 0:
                # the same names on a field of ANOTHER datatype overridden to this one (TOLERANT): constructor argument and
                # assignment after construction
                def overridden(how=k % 2):
                    if how:
                        return core.Field(prev_host, datatype=dt, version=v)
                    f_ = core.Field(prev_host, version=v)
                    f_.datatype = dt
                    return f_
                pos2 = [('positional-lower', '%s_%d' % (prev_host.lower(), crow.num))]
                alias_check(overridden, core.Field, crow, comps, val, rec, rowkey, dict(case, overridden_host=prev_host),
                            k, extra=pos2)
                rec.count('rows_aliased_on_overridden_fields')
            # sub-components: name / long name on the component, positional path on the field
            if crow.kind == 'sequence' and not tables.is_base(v, crow.datatype):
                subs = tables.components(v, crow.datatype)
                for srow in subs:
                    if not srow.ok or srow.card[1] == 0 or srow.kind != 'leaf':
                        continue
                    skey = '%s|%s|%s|%s' % (v, dt, crow.name, srow.name)
                    scase = dict(case, kind='subcomponent', sub=srow.name)
                    try:
                        f = core.Field(host, version=v)
                        path = '%s_%d_%d' % (host.lower(), crow.num, srow.num)
                        setattr(f, path if k % 2 else path.upper(), gen.witness(v, srow.datatype))
                        cl = f.children.indexes.get(crow.name, [])
                        sl = cl[0].children.indexes.get(srow.name, []) if len(cl) == 1 else []
                        rec.evaluation((skey, 'positional', 'write'))
                        if len(cl) != 1 or len(sl) != 1:
                            rec.violation('positional-path-write-misplaced', scase, {'path': path, 'er7': f.to_er7()},
                                          row=skey)
                            continue
                        tgt = sl[0]
                        comp = cl[0]
                        for rkind, getter in (('positional', lambda: getattr(f, path.upper() if k % 2 else path)),
                                              ('name-lower', lambda: getattr(comp, srow.name.lower())),
                                              ('name-mixed', lambda: getattr(getattr(f, crow.name.lower()),
                                                                             mixed(srow.name)))) + \
                                ((('long-lower', lambda: getattr(comp, srow.long_name.lower())),)
                                 if long_ok(core.Component, srow.long_name, subs) else ()):
                            rec.evaluation((skey, rkind, 'read'))
                            got = getter()
                            rec.count('identity_comparisons')
                            if got is None or len(got) != 1 or got[0] is not tgt:
                                rec.violation('alias-mismatch:%s' % rkind.split('-')[0], scase,
                                              {'read_as': rkind, 'got': repr(got)[:100]}, row=skey)
                                break
                        else:
                            rec.count('subcomponent_rows_aliased')
                    except Exception as e:
                        rec.violation('raised:%s' % type(e).__name__, scase, {'exc': repr(e)[:200]}, row=skey)
        if host and comps:
            case = {'kind': 'negative', 'version': v, 'host': host}
            f = core.Field(host, version=v)
            others = [d for d in tables.complex_datatypes(v) if d != dt and tables.components(v, d)]
            if others:
                oc = tables.components(v, others[(k) % len(others)])[0]
                if oc.name not in [c.name for c in comps]:
                    negative(f, oc.name.lower(), rec, case, '%s|%s' % (v, dt), 'component-of-another-datatype')
            negative(f, '%s_%d' % (host.lower(), len(comps) + 1), rec, case, '%s|%s' % (v, dt),
                     'positional-path-beyond-datatype')
            # a path with more levels than component/sub-component designates nothing
            cx = [c for c in comps if c.ok and c.kind == 'sequence' and c.card[1] != 0 and
                  tables.components(v, c.datatype)]
            if cx:
                for tail in ('1', 'x'):
                    negative(core.Field(host, version=v), '%s_%d_1_%s' % (host.lower(), cx[0].num, tail), rec, case,
                             '%s|%s' % (v, dt), 'positional-path-with-too-many-levels')
            # the positional path of ANOTHER field, used on its owner first (a shared path cache would then answer)
            if prev_host and prev_host != host:
                owner = core.Field(prev_host, version=v)
                for path in ('%s_1' % prev_host.lower(), '%s_1_1' % prev_host.lower()):
                    try:
                        getattr(owner, path)
                    except Exception:
                        pass
                    negative(core.Field(host, version=v), path, rec, case, '%s|%s' % (v, dt),
                             'positional-path-of-another-field')
            prev_host = host
    rec.count('component_rows_enumerated', n)
    rec.count('component_rows_in_tables', sum(len(tables.components(v, d)) for d in tables.complex_datatypes(v)))
    rec.seen('versions', v)


def run_shard(spec, rec):
    {'fields': run_fields, 'components': run_components, 'cross': run_cross}[spec['kind']](spec, rec)


def replay(case, rec):
    if case['kind'] in ('cross', 'cross-negative'):
        run_cross({'part': 0, 'parts': 1}, rec)
        return
    run_shard({'kind': 'fields' if case['kind'] in ('field', 'negative') and 'segment' in case else 'components',
               'version': case['version']}, rec)


def floors(tier, m):
    out = []
    c = m['counters']
    if c.get('field_rows_enumerated', 0) != c.get('field_rows_in_tables', -1):
        out.append('field rows enumerated %s != in tables %s' % (c.get('field_rows_enumerated'), c.get('field_rows_in_tables')))
    if c.get('component_rows_enumerated', 0) < 0.95 * c.get('component_rows_in_tables', 1e9):
        out.append('fewer than 95% of component rows')
    if c.get('rows_aliased', 0) < 20000:
        out.append('fewer than 20000 rows fully aliased: %s' % c.get('rows_aliased'))
    if c.get('negative_cases_rejected', 0) < 1000:
        out.append('too few negative cases')
    if len(m['seen'].get('versions', ())) != len(tables.versions()):
        out.append('not every version')
    return out
