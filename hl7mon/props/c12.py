"""C12 - a rejected operation leaves its target unchanged.

Monitor: a deep snapshot (encoding, classes, names, datatypes, leaf values, child identities) of every tree of the
world is taken before each operation; when the operation raises, the snapshots must be equal and the offered child (if
any) must have the parent pointer it had before.  try/finally style: nothing here depends on the call returning.
"""
from .. import tables, gen, hist, treeinv
from . import c09

ID = 'C12'
LEVEL = 'fault_enumeration'
RULE = ('reachable element states (bounded histories of valid and wild operations over segments, fields and messages, all '
        'versions, both levels) x every rejection cause: wrong child class, wrong / foreign name, validation-level and version '
        'mismatch through add and through assignment, cardinality overflow (STRICT), invalid value (STRICT), deleting an absent '
        'child by name and by index, datatype change on a populated element, value text of another element, children = [ok, '
        'bad], assignment of a non-element; non-trivial = the operation actually raised; distinct = (world, state signature, '
        'operation kind, exception class)')
ASSUMPTIONS = [
    'unchanged = equal deep snapshot of every tree of the world (to_er7 text, element classes, names, datatypes, leaf values, '
    'identity and order of listed children) and unchanged parent pointer of the offered child',
]


def plan(tier, seed):
    n = 170 if tier == 'quick' else 3000
    specs = [{'world': 'open', 'version': v, 'n': 42 if tier == 'quick' else 420} for v in tables.versions()]
    for v in tables.versions():
        for kind in ('segment', 'field', 'message', 'component'):
            specs.append({'world': kind, 'version': v, 'n': n})
    return specs


def snap_all(world):
    return [(id(r), treeinv.snapshot(r)) for r in world.roots()]


def classify(op, exc, before, after):
    """mechanism of a non-atomic rejection, from the witness"""
    k = op[0]
    lost = sum(len(b[1][5]) for b in before) > sum(len(a[1][5]) for a in after)
    return 'state-changed-by-rejected:%s:%s' % (k, type(exc).__name__)


class Guard(object):
    """boundary monitor: every library call an operation makes goes through __call__; a deep snapshot of all trees is
    taken before the call and compared when the call raises (try/finally style - nothing depends on a return)"""

    def __init__(self, world, rec):
        self.world, self.rec = world, rec
        self.op, self.done = None, []
        self.stop = False
        self.raised_in_op = None

    def __call__(self, thunk):
        world, rec = self.world, self.rec
        before = snap_all(world)
        parents_before = {id(d): treeinv.parent_of(d) for d in world.detached}
        try:
            return thunk()
        except Exception as raised:
            self.raised_in_op = raised
            op = self.op
            rec.count('guarded_calls_raised')
            after = snap_all(world)
            case = {'world': world.describe(), 'ops': list(self.done) + [op]}
            rec.evaluation((world.describe(), op[0], type(raised).__name__, [b[1][0] for b in before][:3]))
            bmap = dict(before)
            if any(rid in bmap and bmap[rid] != snap for rid, snap in after):
                rec.violation('state-changed-by-rejected:%s:%s' % (op[0], type(raised).__name__), case,
                              {'exc': repr(raised)[:150], 'before': [b[1][0] for b in before],
                               'after': [a[1][0] for a in after if a[0] in bmap]})
                self.stop = True
            else:
                for d in world.detached:
                    pb = parents_before.get(id(d), 'new')
                    now = treeinv.parent_of(d)
                    if (pb != 'new' and now is not pb) or \
                            (pb == 'new' and now is not None and all(c is not d for c in treeinv.kids(now))):
                        rec.violation('rejected-child-left-attached:%s:%s' % (op[0], type(raised).__name__), case,
                                      {'exc': repr(raised)[:150], 'child': repr(d), 'parent_now': repr(now)})
                        self.stop = True
                        break
            raise
        finally:
            rec.count('guarded_calls')


def run_history(world, rec, L, fault_rate=0.45, ops=None):
    rng = world.rng
    g = Guard(world, rec)
    world.guard = g
    step = 0
    while True:
        if ops is not None:
            if step >= len(ops):
                break
            op = ops[step]
        else:
            if step >= L:
                break
            r = rng.random()
            if r < fault_rate:
                op = hist.wild_op(world, rng.choice(hist.FAULTS))
            elif r < fault_rate + 0.15:
                op = hist.wild_op(world, rng.choice(hist.WILD))
            else:
                try:
                    op = world.random_op(allow_copy_elem=False)
                except Exception:
                    step += 1
                    continue
        step += 1
        g.op, g.raised_in_op = op, None
        try:
            if op[0][:2] in ('f_', 'w_'):
                hist.apply_wild(world, op)
            else:
                world.apply_real(op)
                world.apply_model(op)
        except hist.Skip:
            continue
        except Exception as e:
            if g.raised_in_op is None:
                # raised outside a guarded library call: a harness-side failure (e.g. stale model index), not judged
                rec.count('harness_side_exceptions')
                g.done.append(op)
                continue
        g.done.append(op)
        if g.raised_in_op is None:
            rec.count('operations_returned')
        else:
            rec.count('operations_raised')
            rec.seen('raised', '%s:%s' % (op[0], type(g.raised_in_op).__name__))
            rec.count('raised:%s' % op[0])
        if g.stop:
            break
    return g.done


def run_open(spec, rec):
    """Z segments and varies-terminated segments keep bookkeeping about the highest field number: refused additions
    (direct add, parent= constructor, parent setter; other level / version; beyond the populated fields) must not move it"""
    from hl7apy import core
    from . import c02
    v = spec['version']
    rng = gen.rng_for(spec['seed'], 'c12-open', v)
    for seg in c02.open_ended_segments(v):
        rows = tables.segments(v).get(seg)
        base = rows[-1].num if rows else 0
        for i in range(spec['n']):
            level = 1 + i % 2
            s = core.Segment(seg, version=v, validation_level=level)
            empty = seg.startswith('Z') and i % 3 == 2      # a local segment that holds nothing yet
            if not empty:
                setattr(s, '%s_%d' % (seg.lower(), base + 1), 'a')
                setattr(s, '%s_%d' % (seg.lower(), base + 2), 'b')
            else:
                rec.count('open_segments_still_empty')
            if level == 2 and i % 3 == 0 and not empty:
                u = core.Field(version=v, validation_level=level)
                u.value = 'u'
                s.add(u)
            name = '%s_%d' % (seg, base + rng.randint(3, 9))
            how = ('add', 'ctor', 'parent', 'children', 'proxy-value', 'ctor-datatype', 'segment-value')[i % 7]
            mism = ('level', 'version')[(i // 7) % 2]
            lvl = 3 - level if mism == 'level' else level
            ver = hist._other_version(v) if mism == 'version' else v
            before = treeinv.snapshot(s)
            case = {'world': {'kind': 'open', 'version': v, 'level': level, 'segment': seg}, 'how': how, 'mismatch': mism,
                    'name': name, 'empty': empty}
            rec.evaluation(('open', v, seg, level, how, mism, name))
            try:
                if how == 'ctor':
                    core.Field(name, parent=s, version=ver, validation_level=lvl)
                elif how == 'children':
                    # a children list whose first item is fine (a field beyond the populated ones) and whose second is refused
                    first = s.add_field(name) if not seg.startswith('Z') else core.Field(name, version=v, validation_level=level)
                    if not seg.startswith('Z'):
                        s.children.remove(first)
                        before = treeinv.snapshot(s)
                    s.children = list(s.children.list) + [first, core.Field('MSH_3' if seg != 'MSH' else 'PID_3', version=v,
                                                                            validation_level=level)]
                elif how == 'proxy-value':
                    # (STRICT: longer than an ST may be; TOLERANT: no text at all)
                    getattr(s, name.lower()).value = 'x' * (70000 if i % 4 else 300) if level == 1 else \
                        (3.5 if i % 4 else ['a'])
                elif how == 'segment-value':
                    # the whole segment text re-assigned with a value that STRICT refuses (over-long) / a wrong segment name
                    bad = (seg + '|x|' + 'y' * 70000) if level == 1 else ('QQQ|1|2' if seg != 'QQQ' else 'PID|1')
                    s.value = bad
                elif how == 'ctor-datatype':
                    if not seg.startswith('Z'):
                        continue
                    core.Field(name, datatype='CX', parent=s, version=v, validation_level=level)
                else:
                    f = core.Field(name, version=ver, validation_level=lvl)
                    if how == 'add':
                        s.add(f)
                    else:
                        f.parent = s
            except Exception as e:
                rec.count('operations_raised')
                rec.count('raised:open-%s' % how)
                rec.count('guarded_calls_raised')
                after = treeinv.snapshot(s)
                if after != before:
                    rec.violation('state-changed-by-rejected:open-segment-%s:%s' % (how, type(e).__name__), case,
                                  {'before': before[0].replace('\x00', ' / '), 'after': after[0].replace('\x00', ' / ')})
            else:
                rec.count('operations_returned')
    rec.seen('versions', v)


def run_shard(spec, rec):
    if spec['world'] == 'open':
        return run_open(spec, rec)
    v = spec['version']
    rng = gen.rng_for(spec['seed'], 'c12', spec['world'], v)
    for i in range(spec['n']):
        level = 1 if i % 2 else 2
        try:
            w = hist.make_world(spec['world'], v, level, rng)
        except RuntimeError:
            rec.count('world_unavailable')
            continue
        done = run_history(w, rec, rng.randint(3, 14))
        if i < 1:
            rec.sample({'world': w.describe(), 'ops': done[:6]})
    rec.seen('versions', v)


def replay(case, rec):
    d = case['world']
    if d['kind'] == 'open':
        run_open({'version': d['version'], 'seed': 0, 'n': 60}, rec)
        return
    rng = gen.rng_for(0, 'replay')
    w = hist.make_world(d['kind'], d['version'], d['level'], rng, **c09.world_kwargs(d))
    run_history(w, rec, 0, ops=case['ops'])


CAUSES = ('f_wrong_class', 'f_wrong_name', 'f_foreign_elem', 'f_level_add', 'f_level_set', 'f_version_add',
          'f_version_set', 'f_card', 'f_badvalue', 'f_del_absent', 'f_delidx_absent', 'f_dtchange', 'f_value_wrongname',
          'f_children_bad', 'f_settype', 'f_deep_level_set', 'f_deep_version_set', 'f_parent_ctor_level',
          'f_parent_ctor_version', 'f_parent_assign_level', 'f_parent_assign_version', 'f_children_keep_bad',
          'f_proxy_badvalue', 'f_dtobject_complex', 'f_children_moved_then_bad', 'f_stale_handle_badvalue', 'f_proxy_wrongtype_value',
          'f_value_other_datatype_object')


def floors(tier, m):
    out = []
    c = m['counters']
    for k in CAUSES:
        if c.get('raised:%s' % k, 0) < 50:
            out.append('rejection cause %s raised only %d times' % (k, c.get('raised:%s' % k, 0)))
    if len(m['seen'].get('versions', ())) != len(tables.versions()):
        out.append('not every version')
    return out
