"""Message instances generated from the structure tables, with the group tree each line belongs to.

The prescribed tree is produced while the text is emitted (the generator knows which group
repetition each line belongs to); it is never recomputed from the text, so oracles using it do not
re-implement the library's group search.
"""
import collections

from . import tables, gen, er7ref

Line = collections.namedtuple('Line', 'seg path')     # path: tuple of (group name, repetition index)


def unusable_reason(version, node):
    """None when the structure can be judged, else why not: 'choice-or-pseudo-segment' (no agreed semantics in
    this library), 'malformed-segment:<SEG>' (table rows recorded by C02), 'missing-reference:<name>' (a child listed
    without its structure - a table defect the callers report), 'no-MSH'"""
    if not node.ok:
        return 'missing-reference:%s' % node.name
    if node.name != node.name.upper():
        return 'template-structure-name'       # e.g. QBP_Qnn / RSP_Znn: placeholders of the standard, not message types
    if tables.has_choice_or_pseudo(node):
        return 'choice-or-pseudo-segment'
    segs = tables.segments(version)
    for n in tables.walk_nodes(node):
        if not n.ok:
            return 'missing-reference:%s' % n.name
        if n.kind == 'SEG' and (n.name not in segs or segs[n.name] is None):
            return 'malformed-segment:%s' % n.name
    if not node.children or node.children[0].name != 'MSH':
        return 'no-MSH'
    return None


def usable(version, node):
    return unusable_reason(version, node) is None


def msh9_for(version, name):
    """MSH-9 text naming the structure within the component count of the version, or None"""
    ncomp = len(tables.components(version, 'MSG')) or len(tables.components(version, 'CM_MSG'))
    parts = name.split('_')
    if len(parts) == 2 and ncomp <= 2:
        return '%s^%s' % tuple(parts)
    if ncomp >= 3:
        if len(parts) == 2:
            return '%s^%s^%s' % (parts[0], parts[1], name)
        return '%s^A01^%s' % (parts[0], name)
    return None


def msh_line(version, name, ec=None, ctrl='1', msh9=None, extra='', vid=False):
    """vid=True: MSH-12 carries the internationalization code too (VID datatype, from v2.3.1): `2.5^ITA`"""
    ec = ec or er7ref.std(version)
    f = ec['FIELD']
    m9 = (msh9 or msh9_for(version, name) or 'ZZZ^Z01').replace('^', ec['COMPONENT'])
    m12 = version
    if vid and er7ref.vkey(version) >= (2, 3, 1):
        m12 = version + ec['COMPONENT'] + 'ITA'
    return 'MSH' + f + gen.msh2(ec) + f + f.join(['SA', 'SF', 'RA', 'RF', '20200101120000', '', m9, ctrl, 'P',
                                                   m12]) + extra


def emit(node, rng, mode='required', max_rep=1, depth=0, path=(), wide=False):
    """-> [Line].  mode: required | all | random ; repetitions of repeatable children up to max_rep.
    A group is repeated only when that is expressible: a new repetition is recognisable when the group's
    first emitted member is non-repeatable (max == 1)."""
    out = []
    for c in node.children:
        mn, mx = c.card
        if mx == 0:
            continue
        if mode == 'required' and mn == 0:
            continue
        if mode == 'random' and mn == 0 and rng.random() < 0.5:
            continue
        if c.kind == 'SEG':
            n = 1
            if max_rep > 1 and (mx == -1 or mx > 1) and c.name != 'MSH':
                n = rng.randint(1, max_rep if mx == -1 else min(mx, max_rep))
            out.extend(Line(c.name, path) for _ in range(n))
        else:
            n = 1
            if max_rep > 1 and (mx == -1 or mx > 1) and depth < 3:
                n = rng.randint(1, max_rep if mx == -1 else min(mx, max_rep))
            r = 0
            prev_names = None
            for _ in range(n):
                gpath = path + ((c.name, r),)
                sub = emit(c, rng, mode, max_rep, depth + 1, gpath, wide)
                if not sub and mn >= 1:
                    # a required group whose members are all optional: ER7 cannot express an empty group, so a
                    # conforming instance holds at least its first member
                    sub = _first_member(c, gpath)
                if not sub:
                    continue
                if prev_names is not None:
                    # a further repetition is expressible only when it starts with a direct, non-repeatable member of the
                    # group that the previous repetition already holds: its recurrence is what opens the new repetition
                    first = sub[0]
                    member = [x for x in c.children if x.kind == 'SEG' and x.name == first.seg]
                    direct = first.path == gpath and member and member[0].card[1] == 1 and first.seg in prev_names
                    nested = False
                    if wide and not direct and len(first.path) > len(gpath) and first.path[:len(gpath)] == gpath:
                        # (wide) the repetition starts inside nested groups: it is still recognisable when every group on the
                        # way down and the segment itself are non-repeatable and the previous repetition holds that segment
                        # at the same place - the recurrence of a non-repeatable member, one or more levels down
                        cur, ok = c, True
                        for gname, _ in first.path[len(gpath):]:
                            nxt = [x for x in cur.children if x.kind == 'GRP' and x.name == gname]
                            if not nxt or nxt[0].card[1] != 1:
                                ok = False
                                break
                            cur = nxt[0]
                        seg_ = [x for x in cur.children if x.kind == 'SEG' and x.name == first.seg] if ok else []
                        rel = tuple(g for g, _ in first.path[len(gpath):])
                        nested = bool(seg_) and seg_[0].card[1] == 1 and (first.seg, rel) in prev_nested
                    if not direct and not nested:
                        continue
                prev_names = {l.seg for l in sub if l.path == gpath}
                prev_nested = {(l.seg, tuple(g for g, _ in l.path[len(gpath):])) for l in sub}
                out.extend(sub)
                r += 1
    return out


def _first_member(group, path):
    for c in group.children:
        if c.card[1] == 0:
            continue
        if c.kind == 'SEG':
            return [Line(c.name, path)]
        # entering a group makes its own required members necessary
        sub = emit(c, None, 'required', 1, 0, path + ((c.name, 0),))
        if not sub:
            sub = _first_member(c, path + ((c.name, 0),))
        if sub:
            return sub
    return []


def _first_emitted(node, mode):
    for c in node.children:
        if c.card[1] == 0 or (mode == 'required' and c.card[0] == 0):
            continue
        return c
    return None


def _repeatable_group(g, mode):
    """the group's first member is always emitted, is a segment and is non-repeatable"""
    first = None
    for c in g.children:
        if c.card[1] == 0:
            continue
        first = c
        break
    return first is not None and first.kind == 'SEG' and first.card == (1, 1)


def unambiguous(version, node, lines):
    places = tables.segment_name_places(node)
    return all(places[l.seg] == 1 for l in lines)


def tree_of(element):
    """[(segment name, path)] read from a parsed message, path as in Line (group name, repetition index).
    Reads only children.list / name attributes."""
    out = []

    def rec(el, path):
        counters = collections.Counter()
        for c in el.children.list:
            if c.classname == 'Group':
                r = counters[c.name]
                counters[c.name] += 1
                rec(c, path + ((c.name, r),))
            else:
                out.append(Line(c.name, path))
    rec(element, ())
    return out


def conforming_text(version, ref_rows, level=1, ec=None):
    pass


# ---------------------------------------------------------------- conforming values (C04/C08/C18)
def required_text(version, kind, datatype, struct_rows, level=1):
    """minimal non-empty ER7 text for a field (level 1) / component (level 2) satisfying the required
    children of its datatype; withdrawn (max 0) rows are never populated"""
    if kind == 'leaf' or level >= 3 or not struct_rows:
        return gen.witness(version, datatype)
    sep = '^&'[level - 1]
    parts = []
    any_req = False
    for c in struct_rows:
        if c.card[0] >= 1 and c.card[1] != 0:
            parts.append(required_text(version, c.kind, c.datatype,
                                       tables.components(version, c.datatype) if c.kind == 'sequence' else (),
                                       level + 1))
            any_req = True
        else:
            parts.append('')
    if not any_req:
        for i, c in enumerate(struct_rows):
            if c.card[1] != 0 and c.ok:
                parts[i] = required_text(version, c.kind, c.datatype,
                                         tables.components(version, c.datatype) if c.kind == 'sequence' else (),
                                         level + 1)
                break
    while parts and parts[-1] == '':
        parts.pop()
    return sep.join(parts) or gen.witness(version, datatype)


def field_required_text(version, row):
    if row.kind == 'leaf':
        if row.datatype == 'varies':
            return 'x'
        return gen.witness(version, row.datatype)
    return required_text(version, row.kind, row.datatype, tables.components(version, row.datatype), 1)


def conforming_segment_line(version, seg, mode='required', set_id=None):
    """ER7 line of a segment holding its required fields (mode required) or every non-withdrawn field (all)"""
    rows = tables.segments(version)[seg]
    vals = {}
    for r in rows:
        if seg == 'MSH' and r.num in (1, 2):
            continue
        if r.card[1] == 0 or not r.ok:
            continue
        if r.card[0] >= 1 or mode == 'all':
            vals[r.num] = field_required_text(version, r)
    if not vals:
        # an empty segment line is still a segment; give it its first populatable field
        for r in rows:
            if r.card[1] != 0 and r.ok and not (seg == 'MSH' and r.num in (1, 2)):
                vals[r.num] = field_required_text(version, r)
                break
    top = max(vals) if vals else 0
    return '|'.join([seg] + [vals.get(i, '') for i in range(1, top + 1)])


def conforming_msh(version, name, ctrl='1'):
    """MSH line naming structure `name` whose required fields hold conforming values (standard delimiters)"""
    rows = tables.segments(version)['MSH']
    vals = {}
    for r in rows:
        if r.num in (1, 2) or r.card[1] == 0 or not r.ok:
            continue
        if r.card[0] >= 1:
            vals[r.num] = field_required_text(version, r)
    vals[9] = msh9_for(version, name) or 'ZZZ^Z01'
    vals[12] = version
    vals.setdefault(10, ctrl)
    vals.setdefault(7, field_required_text(version, [r for r in rows if r.num == 7][0]))
    top = max(vals)
    return 'MSH|^~\\&|' + '|'.join(vals.get(i, '') for i in range(3, top + 1))
