"""Tree walker, deep snapshots and structural invariants I1-I6.

The walker reads only `__dict__` entries and `children.list / indexes / traversal_indexes`: on an Element,
getattr/hasattr with an unknown name is a *child lookup* (raises ChildNotFound, may create shadow children), so a monitor
using them would both crash and perturb what it observes.
"""
import collections


def kids(e):
    ch = e.__dict__.get('children')
    return list(ch.list) if ch is not None else []


def walk(e):
    yield e
    for c in kids(e):
        for x in walk(c):
            yield x


def parent_of(e):
    return e.__dict__.get('_parent')


def tparent_of(e):
    return e.__dict__.get('_traversal_parent')


def root_of(e):
    seen = set()
    while parent_of(e) is not None and id(e) not in seen:
        seen.add(id(e))
        e = parent_of(e)
    return e


def er7_or_exc(e, trailing=False):
    try:
        return e.to_er7(trailing_children=True) if trailing else e.to_er7()
    except Exception as x:     # the snapshot records the exception class instead of failing
        return 'EXC:' + type(x).__name__


def snapshot(e, with_er7=True):
    """(encoding, class, name, datatype, leaf text, ((id(child), snapshot(child))...))"""
    d = e.__dict__
    val = d.get('_value')
    leaf = None
    if val is not None:
        leaf = getattr(val, 'value', val)
        leaf = '%s:%s' % (type(val).__name__, leaf)
    enc = None
    if with_er7:
        # both encodings: with trailing children the open-ended bookkeeping of segments becomes observable
        enc = er7_or_exc(e) + '\x00' + er7_or_exc(e, True)
    return (enc, type(e).__name__, d.get('name'), d.get('_datatype'), leaf,
            tuple((id(c), snapshot(c, False)) for c in kids(e)))


def shape(e):
    """identity-free structural snapshot (for purity checks where objects are the same anyway)"""
    d = e.__dict__
    return (type(e).__name__, d.get('name'), d.get('_datatype'), tuple(shape(c) for c in kids(e)))


def invariants(roots):
    """-> list of (code, description) for every broken invariant among the trees rooted at `roots`"""
    errs = []
    listed = {}
    for r in roots:
        for e in walk(r):
            L = e.__dict__.get('children')
            if L is None:
                continue
            lst = list(L.list)
            ids = [id(c) for c in lst]
            if len(ids) != len(set(ids)):
                errs.append(('I2-listed-twice', '%r lists a child twice: %r' % (e, lst)))
            for c in lst:
                if parent_of(c) is not e:
                    errs.append(('I1-parent', '%r lists %r whose parent is %r' % (e, c, parent_of(c))))
                if tparent_of(c) is not None:
                    errs.append(('I1-traversal-parent-set', '%r lists %r which still has a traversal parent' % (e, c)))
                if id(c) in listed and listed[id(c)] is not e:
                    errs.append(('I2-two-parents', '%r listed by %r and %r' % (c, listed[id(c)], e)))
                listed[id(c)] = e
                if c.__dict__.get('version') != e.__dict__.get('version'):
                    errs.append(('I6-version', '%r (%s) under %r (%s)' % (c, c.__dict__.get('version'), e,
                                                                        e.__dict__.get('version'))))
                if c.__dict__.get('validation_level') != e.__dict__.get('validation_level'):
                    errs.append(('I6-level', '%r under %r' % (c, e)))
            byname = collections.OrderedDict()
            for c in lst:
                byname.setdefault(c.__dict__.get('name'), []).append(c)
            for n, idx in L.indexes.items():
                exp = byname.get(n, [])
                if [id(x) for x in idx] != [id(x) for x in exp]:
                    errs.append(('I3-index', '%r index[%s]=%r but list has %r' % (e, n, idx, exp)))
            for n in byname:
                if n not in L.indexes:
                    errs.append(('I3-index-missing', '%r lists %s but has no index entry' % (e, n)))
            try:
                if len(L) != len(lst) or [id(x) for x in L] != ids or any(x not in L for x in lst):
                    errs.append(('I4-views', '%r: len/iter/in disagree with the list' % (e,)))
                for i in range(len(lst)):
                    if L[i] is not lst[i]:
                        errs.append(('I4-views', '%r: [] disagrees with the list' % (e,)))
            except Exception as x:
                errs.append(('I4-views', '%r: %r' % (e, x)))
            for n, tl in L.traversal_indexes.items():
                for t in tl:
                    if tparent_of(t) is not e:
                        errs.append(('I5-traversal', '%r shadow %r has traversal parent %r' % (e, t, tparent_of(t))))
                    if parent_of(t) is not None:
                        errs.append(('I5-traversal-has-parent', '%r shadow %r has a real parent' % (e, t)))
                    if id(t) in ids:
                        errs.append(('I5-traversal-listed', '%r shadow %r is also listed' % (e, t)))
    return errs


def count_nodes(roots):
    return sum(1 for r in roots for _ in walk(r))
