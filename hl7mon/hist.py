"""Operation histories over small element trees, executed in lock-step on the real elements and on a
plain ordered-list reference model (per child name an ordered list of ER7 texts, plus global insertion
order for groups/messages).  Ops are JSON lists so that a history is replayable verbatim.

World kinds:  segment (A, B of one segment type), field (F, G of one complex field), message (M, N of ADT_A01).
"""
from . import tables, er7ref, gen, treeinv

TEXTUAL = ('ST', 'IS', 'ID', 'TX', 'FT')
SEG_CANDIDATES = ('PID', 'NK1', 'IN1', 'OBX', 'PV1', 'ORC', 'OBR', 'GT1')


def _first_leaf_dt(version, row):
    if row.kind == 'leaf':
        return row.datatype
    dt = row.datatype
    for _ in range(4):
        comps = tables.components(version, dt)
        if not comps or comps[0].card[1] == 0 or not comps[0].ok:
            return None
        c = comps[0]
        if c.kind == 'leaf' or tables.is_base(version, c.datatype):
            return c.datatype
        dt = c.datatype
    return None


def _long_ok(core_cls, long_name, rows):
    if not long_name:
        return False
    if sum(1 for r in rows if r.long_name == long_name) != 1:
        return False
    ln = long_name.lower()
    return ln not in core_cls.cls_attrs and not hasattr(core_cls, ln) and not ln.startswith('_')


class World(object):
    kind = None

    def __init__(self, version, level, rng):
        self.version, self.level, self.rng = version, level, rng
        self.els = {}
        self.model = {}
        self.n = 0
        self.detached = []     # elements created by ops that may be unattached (for invariants)
        self.guard = lambda thunk: thunk()   # monitors replace this: every library call of an op goes through it

    def val(self):
        self.n += 1
        return 'v%d' % self.n

    def roots(self):
        out = []
        for e in list(self.els.values()) + self.detached:
            r = treeinv.root_of(e)
            if all(r is not x for x in out):
                out.append(r)
        return out

    def describe(self):
        return {'kind': self.kind, 'version': self.version, 'level': self.level}


# ------------------------------------------------------------------ segment world
class SegmentWorld(World):
    kind = 'segment'

    def __init__(self, version, level, rng, seg=None, ec=None):
        World.__init__(self, version, level, rng)
        from hl7apy import core
        self.core = core
        self.ec = ec            # custom delimiters: the segments then live inside Z messages declaring them
        segs = tables.segments(version)
        cands = [s for s in SEG_CANDIDATES if segs.get(s)]
        self.open_fields = None
        if seg is not None and (seg.startswith('Z') or (segs.get(seg) and segs[seg][-1].datatype == 'varies')):
            # an open-ended segment (Z segment, or one whose last field is `varies`): any field number beyond the table is a
            # repeatable field; three of them, apart from each other, stand for the rest
            base = segs[seg][-1].num if segs.get(seg) else 0
            nums = (base + 1, base + 4, base + 6)
            if base < 8 and rng.random() < 0.5:
                # field numbers on both sides of a change in the number of digits (9 | 10, and 100 for Z segments)
                nums = (base + 1, 9, 10, 12) if not seg.startswith('Z') else rng.choice([(2, 9, 10, 15), (9, 10, 99, 100)])
            dt = 'ST' if seg.startswith('Z') else 'varies'
            self.seg = seg
            self.rows = {'%s_%d' % (seg, k): tables.FieldRow(seg, '%s_%d' % (seg, k), k, 'leaf', dt, None, (0, -1), None, None,
                                                           True, None) for k in nums}
            self.open_fields = nums
            cands = []
            seg = None
        for s in ([seg] if seg else rng.sample(cands, len(cands))):
            rows = [r for r in gen.usable_rows(version, s) if _first_leaf_dt(version, r) in TEXTUAL]
            rep = [r for r in rows if r.card[1] == -1]
            single = [r for r in rows if r.card[1] == 1]
            if len(rep) >= 2 and single:
                self.seg = s
                self.rows = {r.name: r for r in rep[:2] + single[:1]}
                break
        else:
            if self.open_fields is None:
                raise RuntimeError('no candidate segment in %s' % version)
        allrows = segs.get(self.seg) or []
        self.long = {r.name: r.long_name for r in self.rows.values() if _long_ok(core.Segment, r.long_name, allrows)}
        self.names = sorted(self.rows, key=lambda n: self.rows[n].num)
        self.hosts = {}
        for k in ('A', 'B'):
            self.els[k] = core.Segment(self.seg, version=version, validation_level=level)
            self.model[k] = {n: [] for n in self.names}
            if ec is not None:
                host = core.Message('ZA%s_Z01' % k, version=version, validation_level=level, encoding_chars=dict(ec))
                host.msh.msh_7 = '20200101'
                host.add(self.els[k])
                self.hosts[k] = host

    def describe(self):
        d = World.describe(self)
        d['segment'] = self.seg
        if self.ec is not None:
            d['ec'] = {k: v for k, v in self.ec.items() if k not in ('SEGMENT', 'GROUP')}
        return d

    def chars(self):
        return self.ec or er7ref.STD

    def maxcard(self, name):
        return self.rows[name].card[1]

    def spelling(self, name):
        r = self.rng.random()
        if r < 0.4:
            return name.lower()
        if r < 0.6:
            return name
        if r < 0.85 and name in self.long:
            return self.long[name].lower() if self.rng.random() < 0.7 else self.long[name]
        return name.capitalize()

    def sub_of(self, name):
        """name of the second component of a composite field whose second component is a textual leaf (the one that
        value_for fills), else None"""
        row = self.rows[name]
        if row.kind != 'sequence':
            return None
        comps = tables.components(self.version, row.datatype)
        if len(comps) > 1 and comps[1].kind == 'leaf' and comps[1].datatype in TEXTUAL and comps[1].card[1] != 0 and comps[1].ok:
            return comps[1].name
        return None

    def value_for(self, name):
        v = self.val()
        row = self.rows[name]
        if row.kind == 'sequence' and self.rng.random() < 0.3:
            comps = tables.components(self.version, row.datatype)
            if len(comps) > 1 and comps[1].kind == 'leaf' and comps[1].datatype in TEXTUAL and comps[1].card[1] != 0:
                return v + self.chars()['COMPONENT'] + 'w%d' % self.n
        return v

    def encode_model(self, el):
        m = self.model[el]
        top = max([self.rows[n].num for n in m if m[n]] or [0])
        parts = [self.seg] + [''] * top
        for n, reps in m.items():
            if reps:
                parts[self.rows[n].num] = self.chars()['REPETITION'].join(reps)
        return self.chars()['FIELD'].join(parts)

    def encode_real(self, el):
        return self.els[el].to_er7()

    # ---- op generation (state-aware so that C09 ops are expected to succeed)
    def random_op(self, allow_copy_elem=True):
        rng = self.rng
        el = rng.choice(('A', 'A', 'B'))
        other = 'B' if el == 'A' else 'A'
        name = rng.choice(self.names)
        reps = self.model[el][name]
        strict_full = self.level == 1 and self.maxcard(name) != -1 and len(reps) >= self.maxcard(name)
        kinds = ['set', 'set']
        if not strict_full:
            kinds += ['add_new', 'add_helper', 'setidx_append']
        if reps:
            kinds += ['setidx', 'setidx', 'del', 'delidx', 'remove', 'setidx_view']
            if not strict_full:
                kinds += ['insert_view']
        if len(reps) >= 2 and allow_copy_elem:
            kinds += ['setidx_own']
        if self.open_fields is not None and not self.seg.startswith('Z'):
            # a field beyond the table of a varies-terminated segment exists only through its segment: Field('RDT_7') alone
            # is an invalid name by design
            kinds = [k for k in kinds if k not in ('add_new', 'insert_view')]
        if self.model[other][name]:
            kinds += ['copy']
            if allow_copy_elem:
                kinds += ['copy_elem']
        # a grandchild addressed THROUGH the proxy (seg.field.component): the proxy stands for the first repetition, whatever
        # the number of repetitions - deleting or writing the second component touches that repetition only
        sub = self.sub_of(name)
        if reps and sub is not None and self.chars()['COMPONENT'] in reps[0]:
            kinds += ['del_sub', 'set_sub']
        k = rng.choice(kinds)
        if k in ('del_sub', 'set_sub'):
            return [k, el, name, self.spelling(name), sub, self.val().replace('v', 'g')]
        if k == 'setidx_own':
            i, j = rng.sample(range(len(reps)), 2)
            return ['setidx_own', el, name, i, j]
        if k == 'set':
            return ['set', el, name, self.spelling(name), self.value_for(name)]
        if k == 'setidx':
            return ['setidx', el, name, rng.randrange(len(reps)), self.value_for(name)]
        if k in ('setidx_view', 'insert_view'):
            # the same edits through the children view: children[j] = text / children.insert(j, field), j being the list
            # position of the addressed repetition
            return [k, el, name, rng.randrange(len(reps)), self.value_for(name)]
        if k == 'setidx_append':
            return ['setidx', el, name, len(reps), self.value_for(name)]
        if k in ('add_new', 'add_helper'):
            return [k, el, name, self.value_for(name)]
        if k == 'del':
            return ['del', el, name, self.spelling(name)]
        if k in ('delidx', 'remove'):
            return [k, el, name, rng.randrange(len(reps))]
        if k == 'copy':
            return ['copy', el, name, other, self.spelling(name)]
        return ['copy_elem', el, name, other, rng.randrange(len(self.model[other][name])), self.spelling(name)]

    def apply_real(self, op):
        core = self.core
        k, el = op[0], self.els[op[1]]
        if k == 'set':
            self.guard(lambda: setattr(el, op[3], op[4]))
        elif k == 'setidx':
            self.guard(lambda: getattr(el, op[2]).__setitem__(op[3], op[4]))
        elif k == 'add_new':
            f = core.Field(op[2], version=self.version, validation_level=self.level)
            if self.ec is not None:
                # a parentless field would split the text with the default delimiters: attach it first
                self.detached.append(f)
                self.guard(lambda: el.add(f))
                self.guard(lambda: setattr(f, 'value', op[3]))
            else:
                self.guard(lambda: setattr(f, 'value', op[3]))
                self.detached.append(f)
                self.guard(lambda: el.add(f))
        elif k == 'add_helper':
            f = self.guard(lambda: el.add_field(op[2]))
            self.guard(lambda: setattr(f, 'value', op[3]))
        elif k == 'del':
            self.guard(lambda: delattr(el, op[3]))
        elif k == 'del_sub':
            self.guard(lambda: delattr(getattr(el, op[3]), op[4].lower()))
        elif k == 'set_sub':
            self.guard(lambda: setattr(getattr(el, op[3]), op[4].lower(), op[5]))
        elif k == 'delidx':
            self.guard(lambda: getattr(el, op[2]).__delitem__(op[3]))
        elif k == 'remove':
            child = getattr(el, op[2])[op[3]]
            self.detached.append(child)
            self.guard(lambda: el.children.remove(child))
        elif k == 'copy':
            sp = op[4] if len(op) > 4 else op[2].lower()
            self.guard(lambda: setattr(el, sp, getattr(self.els[op[3]], op[2].lower())))
        elif k == 'copy_elem':
            sp = op[5] if len(op) > 5 else op[2].lower()
            self.guard(lambda: setattr(el, sp, getattr(self.els[op[3]], op[2].lower())[op[4]]))
        elif k == 'setidx_own':
            # a repetition assigned over another repetition of the same parent: copied by value
            self.guard(lambda: getattr(el, op[2]).__setitem__(op[3], getattr(el, op[2])[op[4]]))
        elif k in ('setidx_view', 'insert_view'):
            target = el.children.indexes[op[2]][op[3]]
            j = [id(c) for c in el.children.list].index(id(target))
            if (j + len(el.children.list) + len(op[4])) % 2:
                j -= len(el.children.list)        # the same place counted from the end, as list.insert / list[j] count it
            if k == 'setidx_view':
                self.guard(lambda: el.children.__setitem__(j, op[4]))
            else:
                f = core.Field(op[2], version=self.version, validation_level=self.level)
                self.detached.append(f)
                if self.ec is not None:
                    self.guard(lambda: el.children.insert(j, f))
                    self.guard(lambda: setattr(f, 'value', op[4]))
                else:
                    self.guard(lambda: setattr(f, 'value', op[4]))
                    self.guard(lambda: el.children.insert(j, f))
        else:
            raise KeyError(k)

    def apply_model(self, op):
        k = op[0]
        m = self.model[op[1]]
        name = op[2]
        if k == 'setidx_own':
            m[name][op[3]] = m[name][op[4]]
            return
        if k in ('del_sub', 'set_sub'):
            first = m[name][0].split(self.chars()['COMPONENT'])[0]
            m[name][0] = first if k == 'del_sub' else first + self.chars()['COMPONENT'] + op[5]
            return
        if k == 'setidx_view':
            m[name][op[3]] = op[4]
            return
        if k == 'insert_view':
            m[name].insert(op[3], op[4])
            return
        if k == 'set':
            if m[name]:
                m[name][0] = op[4]
            else:
                m[name].append(op[4])
        elif k == 'setidx':
            if op[3] < len(m[name]):
                m[name][op[3]] = op[4]
            else:
                m[name].append(op[4])
        elif k in ('add_new', 'add_helper'):
            m[name].append(op[3])
        elif k == 'del':
            m[name].pop(0)
        elif k in ('delidx', 'remove'):
            m[name].pop(op[3])
        elif k == 'copy':
            text = self.model[op[3]][name][0]
            if m[name]:
                m[name][0] = text
            else:
                m[name].append(text)
        elif k == 'copy_elem':
            text = self.model[op[3]][name][op[4]]
            if m[name]:
                m[name][0] = text
            else:
                m[name].append(text)


# ------------------------------------------------------------------ field world
class FieldWorld(World):
    kind = 'field'

    def __init__(self, version, level, rng, fname=None):
        World.__init__(self, version, level, rng)
        from hl7apy import core
        self.core = core
        segs = tables.segments(version)
        cands = []
        for s in SEG_CANDIDATES:
            for r in gen.usable_rows(version, s) if segs.get(s) else []:
                if r.kind != 'sequence':
                    continue
                comps = tables.components(version, r.datatype)
                leafs = [c for c in comps if c.ok and c.card[1] != 0 and c.kind == 'leaf' and c.datatype in TEXTUAL]
                if len(leafs) >= 3:
                    cands.append((r, comps, leafs))
        if fname:
            cands = [c for c in cands if c[0].name == fname]
        r, comps, leafs = rng.choice(cands)
        self.row, self.comps = r, {c.name: c for c in leafs[:4]}
        self.names = sorted(self.comps, key=lambda n: self.comps[n].num)
        self.long = {c.name: c.long_name for c in self.comps.values() if _long_ok(core.Field, c.long_name, comps)}
        for k in ('F', 'G'):
            self.els[k] = core.Field(r.name, version=version, validation_level=level)
            self.model[k] = {n: [] for n in self.names}

    def describe(self):
        d = World.describe(self)
        d['field'] = self.row.name
        return d

    def spelling(self, name):
        r = self.rng.random()
        if r < 0.35:
            return name.lower()
        if r < 0.5:
            return name
        if r < 0.75 and name in self.long:
            return self.long[name].lower()
        return '%s_%d' % (self.row.name.lower(), self.comps[name].num)     # positional path from the field

    def encode_model(self, el):
        m = self.model[el]
        top = max([self.comps[n].num for n in m if m[n]] or [0])
        parts = [''] * (top + 1)
        for n, reps in m.items():
            if reps:
                parts[self.comps[n].num] = '^'.join(reps)
        return '^'.join(parts[1:])

    def encode_real(self, el):
        return self.els[el].to_er7()

    def random_op(self, allow_copy_elem=True):
        rng = self.rng
        el = rng.choice(('F', 'F', 'G'))
        other = 'G' if el == 'F' else 'F'
        name = rng.choice(self.names)
        reps = self.model[el][name]
        kinds = ['set', 'set']
        if not reps:
            kinds += ['add_new', 'add_helper']
        else:
            kinds += ['del', 'setidx', 'delidx', 'remove']
        if self.model[other][name]:
            kinds += ['copy'] + (['copy_elem'] if allow_copy_elem else [])
        k = rng.choice(kinds)
        if k == 'set':
            return ['set', el, name, self.spelling(name), self.val()]
        if k == 'setidx':
            return ['setidx', el, name, 0, self.val()]
        if k in ('add_new', 'add_helper'):
            return [k, el, name, self.val()]
        if k == 'del':
            return ['del', el, name, self.spelling(name)]
        if k in ('delidx', 'remove'):
            return [k, el, name, 0]
        if k == 'copy':
            return ['copy', el, name, other, self.spelling(name)]
        return ['copy_elem', el, name, other, 0, self.spelling(name)]

    def apply_real(self, op):
        core = self.core
        k, el = op[0], self.els[op[1]]
        if k == 'set':
            self.guard(lambda: setattr(el, op[3], op[4]))
        elif k == 'setidx':
            self.guard(lambda: getattr(el, op[2]).__setitem__(op[3], op[4]))
        elif k == 'add_new':
            c = core.Component(op[2], version=self.version, validation_level=self.level)
            self.guard(lambda: setattr(c, 'value', op[3]))
            self.detached.append(c)
            self.guard(lambda: el.add(c))
        elif k == 'add_helper':
            c = self.guard(lambda: el.add_component(op[2]))
            self.guard(lambda: setattr(c, 'value', op[3]))
        elif k == 'del':
            self.guard(lambda: delattr(el, op[3]))
        elif k == 'delidx':
            self.guard(lambda: getattr(el, op[2]).__delitem__(op[3]))
        elif k == 'remove':
            child = getattr(el, op[2])[op[3]]
            self.detached.append(child)
            self.guard(lambda: el.children.remove(child))
        elif k == 'copy':
            sp = op[4] if len(op) > 4 else op[2].lower()
            self.guard(lambda: setattr(el, sp, getattr(self.els[op[3]], op[2].lower())))
        elif k == 'copy_elem':
            sp = op[5] if len(op) > 5 else op[2].lower()
            self.guard(lambda: setattr(el, sp, getattr(self.els[op[3]], op[2].lower())[op[4]]))
        else:
            raise KeyError(k)

    apply_model = SegmentWorld.apply_model


# ------------------------------------------------------------------ component world
class ComponentWorld(FieldWorld):
    """C, D: two instances of one complex component; children are its leaf sub-components"""
    kind = 'component'

    def __init__(self, version, level, rng, cname=None):
        World.__init__(self, version, level, rng)
        from hl7apy import core
        self.core = core
        cands = []
        for dt in tables.complex_datatypes(version):
            for c in tables.components(version, dt):
                if not (c.ok and c.kind == 'sequence' and c.card[1] != 0) or tables.is_base(version, c.datatype):
                    continue
                subs = tables.components(version, c.datatype)
                leafs = [x for x in subs if x.ok and x.card[1] != 0 and x.kind == 'leaf' and x.datatype in TEXTUAL]
                if len(leafs) >= 3 and all(x.kind == 'leaf' for x in subs):
                    cands.append((c, subs, leafs))
        if cname:
            cands = [x for x in cands if x[0].name == cname]
        if not cands:
            raise RuntimeError('no complex component with three textual sub-components in %s' % version)
        c, subs, leafs = rng.choice(cands)
        self.row, self.comps = c, {x.name: x for x in leafs[:4]}
        self.names = sorted(self.comps, key=lambda n: self.comps[n].num)
        self.long = {x.name: x.long_name for x in self.comps.values() if _long_ok(core.Component, x.long_name, subs)}
        for k in ('F', 'G'):
            self.els[k] = core.Component(c.name, version=version, validation_level=level)
            self.model[k] = {n: [] for n in self.names}

    def describe(self):
        d = World.describe(self)
        d['component'] = self.row.name
        return d

    def spelling(self, name):
        r = self.rng.random()
        if r < 0.4:
            return name.lower()
        if r < 0.6:
            return name
        if r < 0.85 and name in self.long:
            return self.long[name].lower()
        return name.capitalize()

    def encode_model(self, el):
        m = self.model[el]
        top = max([self.comps[n].num for n in m if m[n]] or [0])
        parts = [''] * (top + 1)
        for n, reps in m.items():
            if reps:
                parts[self.comps[n].num] = '&'.join(reps)
        return '&'.join(parts[1:])

    def apply_real(self, op):
        core = self.core
        k, el = op[0], self.els[op[1]]
        if k == 'add_new':
            c = core.SubComponent(op[2], version=self.version, validation_level=self.level)
            self.guard(lambda: setattr(c, 'value', op[3]))
            self.detached.append(c)
            self.guard(lambda: el.add(c))
        elif k == 'add_helper':
            c = self.guard(lambda: el.add_subcomponent(op[2]))
            self.guard(lambda: setattr(c, 'value', op[3]))
        else:
            FieldWorld.apply_real(self, op)


# ------------------------------------------------------------------ message world
class MessageWorld(World):
    kind = 'message'

    def __init__(self, version, level, rng, structure='ADT_A01', ec=None):
        World.__init__(self, version, level, rng)
        from hl7apy import core
        self.core = core
        self.ec = ec            # custom delimiters declared by both messages
        self.f = ec['FIELD'] if ec else '|'
        node = tables.messages(version)[structure]
        self.structure = structure
        places = tables.segment_name_places(node)
        segs = tables.segments(version)
        top = [c for c in node.children if c.kind == 'SEG' and c.name != 'MSH' and places[c.name] == 1 and
               segs.get(c.name) and segs[c.name][0].ok and segs[c.name][0].card[1] != 0 and
               _first_leaf_dt(version, segs[c.name][0]) in ('SI', 'ST', 'ID', 'IS')]
        rep = [c for c in top if c.card[1] == -1]
        single = [c for c in top if c.card[1] == 1]
        chosen = rep[:2] + single[:1]
        if len(rep) < 2 or not single:
            raise RuntimeError('structure %s of %s unsuitable' % (structure, version))
        self.nodes = {c.name: c for c in chosen}
        self.group = None
        for c in node.children:
            if c.kind == 'GRP' and c.ok and c.card[1] == -1 and c.children and c.children[0].kind == 'SEG' and \
                    places[c.children[0].name] == 1 and segs.get(c.children[0].name) and \
                    _first_leaf_dt(version, segs[c.children[0].name][0]) in ('SI', 'ST', 'ID', 'IS') and \
                    segs[c.children[0].name][0].card[1] != 0:
                self.group = c
                self.nodes[c.name] = c
                break
        self.order = [c.name for c in node.children if c.name in self.nodes]
        self.names = list(self.order)
        for k in ('M', 'N'):
            m = core.Message(structure, version=version, validation_level=level,
                             encoding_chars=dict(ec) if ec else None)
            m.msh.msh_7 = '20200101120000'
            m.msh.msh_9 = structref_msh9(version, structure).replace('^', ec['COMPONENT'] if ec else '^')
            m.msh.msh_10 = 'id%s' % k
            self.els[k] = m
            self.model[k] = []          # ordered [(name, text)]
        self.msh = {k: self.els[k].msh.to_er7() for k in self.els}

    def describe(self):
        d = World.describe(self)
        d['structure'] = self.structure
        if self.ec is not None:
            d['ec'] = {k: v for k, v in self.ec.items() if k not in ('SEGMENT', 'GROUP')}
        return d

    def text_for(self, name):
        self.n += 1
        if self.group is not None and name == self.group.name:
            return '%s%s%d' % (self.group.children[0].name, self.f, self.n)
        return '%s%s%d' % (name, self.f, self.n)

    def encode_model(self, el):
        items = self.model[el]
        if self.level == 1:
            out = []
            for n in self.order:
                out.extend(t for (x, t) in items if x == n)
            return '\r'.join([self.msh[el]] + out)
        return '\r'.join([self.msh[el]] + [t for _, t in items])

    def encode_real(self, el):
        return self.els[el].to_er7()

    def reps(self, el, name):
        return [i for i, (n, _) in enumerate(self.model[el]) if n == name]

    def random_op(self, allow_copy_elem=True):
        rng = self.rng
        el = rng.choice(('M', 'M', 'N'))
        other = 'N' if el == 'M' else 'M'
        name = rng.choice(self.names)
        isgrp = self.group is not None and name == self.group.name
        reps = self.reps(el, name)
        mx = self.nodes[name].card[1]
        strict_full = self.level == 1 and mx != -1 and len(reps) >= mx
        kinds = ['set', 'set']
        if not strict_full:
            kinds += ['add_new', 'add_helper']
        if reps:
            kinds += ['setidx', 'del', 'delidx', 'remove']
        if self.reps(other, name):
            kinds += ['copy'] + (['copy_elem'] if allow_copy_elem else [])
        k = rng.choice(kinds)
        if k == 'set':
            return ['set', el, name, rng.choice([name.lower(), name]), self.text_for(name)]
        if k == 'setidx':
            return ['setidx', el, name, rng.randrange(len(reps)), self.text_for(name)]
        if k in ('add_new', 'add_helper'):
            return [k, el, name, self.text_for(name)]
        if k == 'del':
            return ['del', el, name, name.lower()]
        if k in ('delidx', 'remove'):
            return [k, el, name, rng.randrange(len(reps))]
        if k == 'copy':
            return ['copy', el, name, other]
        return ['copy_elem', el, name, other, rng.randrange(len(self.reps(other, name)))]

    def _new_child(self, name, text):
        core = self.core
        if self.group is not None and name == self.group.name:
            g = core.Group(name, version=self.version, validation_level=self.level)
            s = g.add_segment(self.group.children[0].name)
            setattr(s, '%s_1' % s.name.lower(), text.split(self.f)[1])
            return g
        s = core.Segment(name, version=self.version, validation_level=self.level)
        if self.ec is not None:
            # a parentless segment would split the text with the default delimiters
            setattr(s, '%s_1' % name.lower(), text.split(self.f)[1])
        else:
            s.value = text
        return s

    def apply_real(self, op):
        k, el = op[0], self.els[op[1]]
        name = op[2]
        isgrp = self.group is not None and name == self.group.name
        if k == 'set':
            self.guard(lambda: setattr(el, op[3], op[4]))
        elif k == 'setidx':
            self.guard(lambda: getattr(el, name).__setitem__(op[3], op[4]))
        elif k == 'add_new':
            c = self._new_child(name, op[3])
            self.detached.append(c)
            self.guard(lambda: el.add(c))
        elif k == 'add_helper':
            if isgrp:
                g = self.guard(lambda: el.add_group(name))
                s = self.guard(lambda: g.add_segment(self.group.children[0].name))
                self.guard(lambda: setattr(s, '%s_1' % s.name.lower(), op[3].split(self.f)[1]))
            else:
                s = self.guard(lambda: el.add_segment(name))
                self.guard(lambda: setattr(s, '%s_1' % name.lower(), op[3].split(self.f)[1]))
        elif k == 'del':
            self.guard(lambda: delattr(el, op[3]))
        elif k == 'delidx':
            self.guard(lambda: getattr(el, name).__delitem__(op[3]))
        elif k == 'remove':
            child = getattr(el, name)[op[3]]
            self.detached.append(child)
            self.guard(lambda: el.children.remove(child))
        elif k == 'copy':
            self.guard(lambda: setattr(el, name.lower(), getattr(self.els[op[3]], name.lower())))
        elif k == 'copy_elem':
            self.guard(lambda: setattr(el, name.lower(), getattr(self.els[op[3]], name.lower())[op[4]]))
        else:
            raise KeyError(k)

    def apply_model(self, op):
        k, el, name = op[0], op[1], op[2]
        items = self.model[el]
        reps = self.reps(el, name)
        if k == 'set':
            if reps:
                items[reps[0]] = (name, op[4])
            else:
                items.append((name, op[4]))
        elif k == 'setidx':
            if op[3] < len(reps):
                items[reps[op[3]]] = (name, op[4])
            else:
                items.append((name, op[4]))
        elif k in ('add_new', 'add_helper'):
            items.append((name, op[3]))
        elif k == 'del':
            items.pop(reps[0])
        elif k in ('delidx', 'remove'):
            items.pop(reps[op[3]])
        elif k in ('copy', 'copy_elem'):
            src = self.model[op[3]]
            sreps = self.reps(op[3], name)
            text = src[sreps[0 if k == 'copy' else op[4]]][1]
            if reps:
                items[reps[0]] = (name, text)
            else:
                items.append((name, text))


def structref_msh9(version, structure):
    from . import structref
    return structref.msh9_for(version, structure) or 'ADT^A01'


def make_world(kind, version, level, rng, **kw):
    return {'segment': SegmentWorld, 'field': FieldWorld, 'message': MessageWorld,
            'component': ComponentWorld}[kind](version, level, rng, **kw)


# ------------------------------------------------------------------ wild and fault operations (C10 / C12)
# They run on the real elements only (the list model is not maintained past them).  Fault operations are
# expected to be rejected; wild ones exercise re-attachment, shadow reads and alternative views.
FAULTS = ('f_wrong_class', 'f_wrong_name', 'f_foreign_elem', 'f_level_add', 'f_level_set', 'f_version_add',
          'f_version_set', 'f_card', 'f_badvalue', 'f_del_absent', 'f_delidx_absent', 'f_dtchange', 'f_value_wrongname',
          'f_children_bad', 'f_settype', 'f_value_badleaf', 'f_deep_level_set', 'f_deep_version_set',
          'f_parent_ctor_level', 'f_parent_ctor_version', 'f_parent_assign_level', 'f_parent_assign_version',
          'f_children_keep_bad', 'f_proxy_badvalue', 'f_dtobject_complex', 'f_ctor_parent_refused',
          'f_children_moved_then_bad', 'f_stale_handle_badvalue', 'f_proxy_wrongtype_value', 'f_value_other_datatype_object')
WILD = ('w_reattach', 'w_add_twice', 'w_set_own', 'w_read', 'w_parent_ctor', 'w_del_view', 'w_pop', 'w_children_assign',
        'w_value', 'w_setitem_view', 'w_deep_write', 'w_detached_readd', 'w_parent_assign', 'w_insert_view',
        'w_dtobject', 'w_setitem_view_elem', 'w_read_beyond', 'w_unnamed_component_value', 'w_unnamed_component_retype',
        'w_parent_none')


class Skip(Exception):
    """the operation is not applicable in the current state (nothing was called on the library)"""


def _other_version(v):
    vs = tables.versions()
    return vs[(vs.index(v) + 1) % len(vs)]


def wild_op(world, kind=None):
    rng = world.rng
    k = kind or rng.choice(FAULTS + WILD)
    els = sorted(world.els)
    el = rng.choice(els)
    other = [e for e in els if e != el][0]
    name = rng.choice(world.names)
    return [k, el, name, other, rng.randrange(3), world.val()]


def _maxcard(world, name):
    if world.kind == 'segment':
        return world.rows[name].card[1]
    if world.kind in ('field', 'component'):
        return world.comps[name].card[1]
    return world.nodes[name].card[1]


def _child_cls(world):
    return {'segment': world.core.Field, 'field': world.core.Component, 'message': world.core.Segment,
            'component': world.core.SubComponent}[world.kind]


def _child_text(world, name, val):
    if world.kind == 'message':
        g = world.group
        return '%s%s%s' % (g.children[0].name if g is not None and name == g.name else name, getattr(world, 'f', '|'), val[1:])
    return val


def _new_child(world, name, val, level=None, version=None):
    core = world.core
    level = level or world.level
    version = version or world.version
    if world.kind == 'message':
        if world.group is not None and name == world.group.name:
            c = core.Group(name, version=version, validation_level=level)
            s = c.add_segment(world.group.children[0].name)
            setattr(s, '%s_1' % s.name.lower(), val[1:])
            return c
        c = core.Segment(name, version=version, validation_level=level)
        setattr(c, '%s_1' % name.lower(), val[1:])
        return c
    c = _child_cls(world)(name, version=version, validation_level=level)
    c.value = val
    return c


def apply_wild(world, op):
    """execute a wild/fault op on the real elements; returns the offered child element if there is one (so that
    monitors can look at its parent pointer)"""
    core = world.core
    k, eln, name, othern, i, val = op
    el, other = world.els[eln], world.els[othern]
    lname = name.lower()
    offered = None
    G = world.guard

    def reps(e):
        return list(e.children.indexes.get(name, []))
    if k == 'f_wrong_class':
        offered = core.SubComponent(datatype='ST', value='x', version=world.version, validation_level=world.level) \
            if world.kind not in ('field', 'component') else core.Segment('PID', version=world.version,
                                                                          validation_level=world.level)
        world.detached.append(offered)
        G(lambda: el.add(offered))
    elif k == 'f_wrong_name':
        bad = {'segment': 'zzz_1' if world.kind == 'segment' and world.seg != 'ZZZ' else 'pid_1', 'field': 'zz_1',
               'message': 'qqq', 'component': 'msg_1'}[world.kind]
        if world.kind == 'segment':
            bad = 'msh_3' if world.seg != 'MSH' else 'pid_3'
        elif world.kind in ('field', 'component'):
            bad = 'msg_1' if world.row.datatype != 'MSG' else 'cx_1'
        G(lambda: setattr(el, bad, _child_text(world, name, val)))
    elif k == 'f_foreign_elem':
        others = [n for n in world.names if n != name]
        offered = _new_child(world, others[0], val)
        world.detached.append(offered)
        G(lambda: setattr(el, lname, offered))
    elif k in ('f_level_add', 'f_level_set', 'f_version_add', 'f_version_set'):
        if 'level' in k:
            offered = _new_child(world, name, val, level=3 - world.level)
        else:
            offered = _new_child(world, name, val, version=_other_version(world.version))
        world.detached.append(offered)
        if k.endswith('_add'):
            G(lambda: el.add(offered))
        else:
            G(lambda: setattr(el, lname, offered))
    elif k == 'f_card':
        # overflow the maximum cardinality (rejected under STRICT only)
        singles = [n for n in world.names if _maxcard(world, n) == 1]
        if singles:
            name = singles[0]
        offered = _new_child(world, name, val)
        world.detached.append(offered)
        G(lambda: el.add(offered))
    elif k == 'f_badvalue':
        if world.kind == 'segment':
            # a numeric / date field of this segment, if any, gets text (rejected under STRICT)
            rows = [r for r in gen.usable_rows(world.version, world.seg) if r.kind == 'leaf' and
                    r.datatype in ('NM', 'SI', 'DT', 'DTM', 'TM')]
            if rows:
                G(lambda: setattr(el, rows[0].name.lower(), 'not a number'))
            else:
                G(lambda: setattr(el, lname, 'x' * 70000))
        elif world.kind == 'message':
            G(lambda: setattr(el, lname, _child_text(world, name, val).split(getattr(world, 'f', '|'))[0] +
                              getattr(world, 'f', '|') + 'not a number'))
        else:
            G(lambda: setattr(el, lname, 'x' * 70000))
    elif k == 'f_del_absent':
        empty = [n for n in world.names if not el.children.indexes.get(n)]
        if not empty:
            raise Skip()
        G(lambda: delattr(el, empty[0].lower()))
    elif k == 'f_delidx_absent':
        G(lambda: getattr(el, lname).__delitem__(len(reps(el)) + 2))
    elif k == 'f_dtchange':
        tgt = reps(el)[0] if reps(el) else el
        if world.kind == 'message':
            raise Skip()
        if i == 0:
            # a populated base-datatype leaf: the change must be refused as a whole
            leafs = [c for c in treeinv.walk(el) if type(c).__name__ == 'SubComponent' and c.__dict__.get('_value')]
            if leafs:
                host = treeinv.parent_of(leafs[0])
                if host is not None and treeinv.parent_of(host) is not None:
                    host = treeinv.parent_of(host)
                if host is not None and type(host).__name__ in ('Field', 'Component'):
                    cur = host.__dict__.get('_datatype')
                    G(lambda: setattr(host, 'datatype', 'NM' if cur != 'NM' else 'ST'))
                    return None
        G(lambda: setattr(tgt, 'datatype', 'CX' if tgt.__dict__.get('_datatype') != 'CX' else 'XPN'))
    elif k == 'f_value_wrongname':
        if world.kind == 'segment':
            G(lambda: setattr(el, 'value', ('PV1' if world.seg != 'PV1' else 'PID') + '|1|2'))
        elif world.kind == 'message':
            G(lambda: setattr(el, 'value', 'MSH|^~\\&|A|B|C|D|20200101||ADT^A02^ADT_A02|1|P|%s\rPID|1' % world.version))
        else:
            raise Skip()
    elif k == 'f_children_bad':
        good = _new_child(world, name, val)
        if world.kind == 'segment':
            bad = core.Field('MSH_3' if world.seg != 'MSH' else 'PID_3', version=world.version,
                             validation_level=world.level)
        elif world.kind == 'field':
            bad = core.Component('MSG_1' if world.row.datatype != 'MSG' else 'CX_1', version=world.version,
                                 validation_level=world.level)
        else:
            bad = core.Field('PID_1', version=world.version, validation_level=world.level)
        world.detached += [good, bad]
        offered = bad
        lst = [good, bad]
        if i % 2 and reps(other):
            # ... followed by an element that is attached elsewhere: it is never reached and stays where it is
            lst.append(reps(other)[0])
        G(lambda: setattr(el, 'children', lst))
    elif k == 'f_settype':
        G(lambda: setattr(el, lname, 12345))
    elif k == 'f_value_badleaf':
        if world.kind == 'segment':
            G(lambda: setattr(el, 'value', '%s|%s' % (world.seg, '|'.join(['not^a&number~x'] * 3))))
            if world.level == 2:
                return None
        else:
            raise Skip()
    elif k in ('f_deep_level_set', 'f_deep_version_set'):
        # a refused assignment at the end of a traversal chain whose intermediate element may not exist yet
        lvl = 3 - world.level if 'level' in k else world.level
        ver = _other_version(world.version) if 'version' in k else world.version
        if world.kind == 'segment':
            row = world.rows[name]
            comps = [c for c in tables.components(world.version, row.datatype) if c.ok and c.card[1] != 0] \
                if row.kind == 'sequence' else []
            if not comps:
                raise Skip()
            c = comps[i % len(comps)]
            try:
                offered = core.Component(c.name, version=ver, validation_level=lvl)
                offered.value = val
            except Exception:
                raise Skip()
            world.detached.append(offered)
            G(lambda: setattr(getattr(el, lname), c.name.lower(), offered))
        elif world.kind == 'message':
            if world.group is not None and name == world.group.name:
                raise Skip()
            rname = '%s_1' % name
            try:
                offered = core.Field(rname, version=ver, validation_level=lvl)
                offered.value = val[1:]
            except Exception:
                raise Skip()
            world.detached.append(offered)
            G(lambda: setattr(getattr(el, lname), rname.lower(), offered))
        else:
            raise Skip()
    elif k in ('f_parent_ctor_level', 'f_parent_ctor_version', 'f_parent_assign_level', 'f_parent_assign_version'):
        # attachment through the parent= constructor argument / the parent setter of an element of another level/version
        lvl = 3 - world.level if 'level' in k else world.level
        ver = _other_version(world.version) if 'version' in k else world.version
        if world.kind == 'message' and world.group is not None and name == world.group.name:
            raise Skip()
        cls = _child_cls(world) if world.kind != 'message' else core.Segment
        if 'ctor' in k:
            G(lambda: cls(name, parent=el, version=ver, validation_level=lvl))
        else:
            try:
                offered = cls(name, version=ver, validation_level=lvl)
            except Exception:
                raise Skip()
            world.detached.append(offered)
            G(lambda: setattr(offered, 'parent', el))
    elif k == 'f_ctor_parent_refused':
        # constructors given parent= together with arguments they refuse after looking the element up (a datatype override
        # under STRICT, an invalid or over-long leaf value): the parent is untouched
        if world.kind == 'segment':
            row = world.rows[name]
            G(lambda: core.Field(name, datatype='ST' if row.datatype != 'ST' else 'NM', parent=el, version=world.version,
                                 validation_level=world.level))
        elif world.kind == 'field':
            crow = world.comps[name]
            G(lambda: core.Component(name, datatype='NM' if crow.datatype != 'NM' else 'ST', parent=el,
                                     version=world.version, validation_level=world.level))
        elif world.kind == 'component':
            G(lambda: core.SubComponent(name, value='x' * 70000, parent=el, version=world.version,
                                        validation_level=world.level))
        else:
            raise Skip()
    elif k == 'f_children_moved_then_bad':
        # a children list holding an element taken from the other parent, then one that is refused: the other parent keeps
        # its child
        if world.kind == 'message' or not reps(other):
            raise Skip()
        if world.kind == 'segment':
            bad = core.Field('MSH_3' if world.seg != 'MSH' else 'PID_3', version=world.version,
                             validation_level=world.level)
        elif world.kind == 'field':
            bad = core.Component('MSG_1' if world.row.datatype != 'MSG' else 'CX_1', version=world.version,
                                 validation_level=world.level)
        else:
            bad = core.Field('PID_1', version=world.version, validation_level=world.level)
        world.detached.append(bad)
        offered = bad
        rs = list(reps(other))
        if len(rs) >= 2 and i % 3:
            # two or three children of the other parent, listed in their order there or in another one: all go back to
            # the places they had
            moved = rs[:3] if i % 3 == 1 else rs[:3][::-1]
            if i % 2 and len(moved) == 3:
                moved = [moved[1], moved[2], moved[0]]
        else:
            moved = [rs[i % len(rs)]]
        G(lambda: setattr(el, 'children', moved + [bad]))
    elif k == 'f_stale_handle_badvalue':
        # a handle taken through a field that did not exist yet; a real field of that name is then added by other means;
        # a value the handle's component refuses is assigned through the handle: the real field stays, nothing else appears
        if world.kind != 'segment':
            raise Skip()
        cands = [n for n in world.names if not el.children.indexes.get(n) and world.rows[n].kind == 'sequence' and
                 world.rows[n].card[1] == -1]
        if not cands:
            raise Skip()
        n0 = cands[i % len(cands)]
        comps = [c for c in tables.components(world.version, world.rows[n0].datatype) if c.ok and c.card[1] != 0]
        cx = [c for c in comps if c.kind == 'sequence' and not tables.is_base(world.version, c.datatype)]
        if world.level == 1 and comps:
            c0, bad = comps[0], 'x' * 70000
        elif cx:
            from hl7apy.factories import datatype_factory
            c0, bad = cx[0], datatype_factory('ST', 'abc', world.version, world.level)
        else:
            raise Skip()
        handle = G(lambda: getattr(getattr(el, n0.lower()), c0.name.lower()))
        real = G(lambda: el.add_field(n0))
        G(lambda: setattr(real, 'value', val))
        G(lambda: setattr(handle, 'value', bad))
    elif k == 'f_proxy_wrongtype_value':
        # a value that is neither text nor a datatype object nor an element (bytes from a socket, a number, None, a list),
        # assigned through the proxy of a child that does not exist yet: refused, and nothing stays behind
        if world.kind != 'segment':
            raise Skip()
        absent = [n for n in world.names if not el.children.indexes.get(n)]
        if not absent:
            raise Skip()
        bad = (b'bytes', 12345, None, ['a'])[i % 4]
        G(lambda: setattr(getattr(el, absent[0].lower()), 'value', bad))
    elif k == 'f_value_other_datatype_object':
        # a populated base-datatype field given a datatype object of another class through .value: refused, the old value
        # stays
        if world.kind != 'segment':
            raise Skip()
        from hl7apy.factories import datatype_factory
        rws = [r for r in gen.usable_rows(world.version, world.seg) if r.kind == 'leaf' and r.datatype in ('ST', 'ID', 'IS', 'SI')]
        if not rws:
            raise Skip()
        r = rws[i % len(rws)]
        if not el.children.indexes.get(r.name):
            G(lambda: setattr(el, r.name.lower(), '1'))
        fld = el.children.indexes[r.name][0]
        obj = datatype_factory('NM', '3', world.version, world.level)
        G(lambda: setattr(fld, 'value', obj))
    elif k == 'f_children_keep_bad':
        # the current children plus one the element must refuse, assigned as a whole
        if world.kind == 'segment':
            bad = core.Field('MSH_3' if world.seg != 'MSH' else 'PID_3', version=world.version,
                             validation_level=world.level)
        elif world.kind == 'field':
            bad = core.Component('MSG_1' if world.row.datatype != 'MSG' else 'CX_1', version=world.version,
                                 validation_level=world.level)
        elif world.kind == 'component':
            bad = core.Field('PID_1', version=world.version, validation_level=world.level)
        else:
            raise Skip()
        if not len(el.children):
            raise Skip()
        world.detached.append(bad)
        offered = bad
        G(lambda: setattr(el, 'children', list(el.children.list) + [bad]))
    elif k == 'f_proxy_badvalue':
        # a value the leaf must refuse (STRICT), assigned through the proxy of a child that does not exist yet
        if world.kind != 'segment':
            raise Skip()
        rows = [r for r in gen.usable_rows(world.version, world.seg)
                if not el.children.indexes.get(r.name) and r.name in world.names]
        if not rows:
            raise Skip()
        r = rows[i % len(rows)]
        bad = 'not a number' if r.datatype in ('NM', 'SI', 'DT', 'DTM', 'TM') else 'x' * 70000
        G(lambda: setattr(getattr(el, r.name.lower()), 'value', bad))
    elif k in ('f_dtobject_complex', 'w_dtobject'):
        # a base datatype object assigned by name: accepted where the child is of a base datatype, refused where it is complex
        from hl7apy.factories import datatype_factory
        if world.kind == 'segment':
            rws = [world.rows[n] for n in world.names]
        elif world.kind in ('field', 'component'):
            rws = [world.comps[n] for n in world.names]
        else:
            raise Skip()
        want_leaf = (k == 'w_dtobject')
        cands = [r for r in rws if (r.kind == 'leaf' and r.datatype in ('ST', 'ID', 'IS', 'TX', 'FT')) == want_leaf
                 and r.datatype != 'varies']
        if not cands:
            raise Skip()
        r = cands[i % len(cands)]
        try:
            obj = datatype_factory(r.datatype if want_leaf else 'ST', val.replace('|', ''), world.version, world.level)
        except Exception:
            raise Skip()
        G(lambda: setattr(el, r.name.lower(), obj))
    # ---- wild (usually accepted)
    elif k == 'w_insert_view':
        # MutableSequence.insert on the children view: the new child goes to that position, also among its namesakes
        offered = _new_child(world, name, val)
        world.detached.append(offered)
        lo = 1 if world.kind == 'message' else 0
        j = lo + i % (len(el.children) - lo + 1)
        if i % 2 and j < len(el.children):
            j -= len(el.children)                 # the same place counted from the end
        G(lambda: el.children.insert(j, offered))
    elif k == 'w_setitem_view_elem':
        # children[j] = <element of the same name> replaces the j-th child
        if len(el.children):
            j = i % len(el.children)
            ch = el.children.list[j]
            if ch.name in world.names:
                offered = _new_child(world, ch.name, val)
                world.detached.append(offered)
                G(lambda: el.children.__setitem__(j, offered))
    elif k == 'w_read_beyond':
        # reads of a field number beyond the highest one present (open-ended segments accept any number)
        if world.kind != 'segment':
            raise Skip()
        hi = max([int(c.name.rsplit('_', 1)[1]) for c in el.children.list if c.name and '_' in c.name] + [0])
        nm = '%s_%d' % (world.seg.lower(), hi + 1 + i)
        try:
            p = G(lambda: getattr(el, nm))
            G(lambda: (len(p), repr(p), list(p), p.value))
        except Exception:
            pass
    elif k == 'w_unnamed_component_value':
        # the component of a base-datatype field has no name of its own (it is called after its datatype); text with a
        # sub-component separator assigned to it (TOLERANT keeps it) must leave name lookups and the list in agreement
        if world.kind != 'segment':
            raise Skip()
        leafs = [c for n in world.names for c in el.children.indexes.get(n, []) if world.rows[n].kind == 'leaf']
        if not leafs:
            # populate a leaf field of the segment outside the world's names, if there is one
            rws = [r for r in gen.usable_rows(world.version, world.seg) if r.kind == 'leaf' and r.datatype in ('ST', 'ID', 'IS', 'SI')
                   and r.name not in world.names]
            if not rws:
                raise Skip()
            G(lambda: setattr(el, rws[0].name.lower(), '1'))
            leafs = list(el.children.indexes.get(rws[0].name, []))
        fld = leafs[i % len(leafs)]
        if not fld.children.list:
            raise Skip()
        comp = fld.children.list[0]
        world.detached.append(fld)
        G(lambda: setattr(comp, 'value', 'a' + world.chars()['SUBCOMPONENT'] + 'b'))
        if fld.children.list:
            G(lambda: fld.children.remove(fld.children.list[0]))
    elif k == 'w_unnamed_component_retype':
        # a component created without a name (it is called after its datatype), attached to a field without a name, is given
        # its final datatype while still empty (TOLERANT), then a value, then removed: the list and the name index of the
        # field stay in agreement all along
        if world.level != 2:
            raise Skip()
        core = world.core if hasattr(world, 'core') else __import__('hl7apy.core', fromlist=['core'])
        kw = {'version': world.version, 'validation_level': 2}
        seg = core.Segment('ZIN', **kw)
        fld = core.Field(**kw)
        comp = core.Component(datatype='ST', **kw)
        world.detached.append(seg)
        G(lambda: seg.add(fld))
        G(lambda: fld.add(comp))
        dts = [d for d in ('CE', 'CWE', 'HD', 'CX', 'NM', 'ID') if d in tables.complex_datatypes(world.version) or
               tables.is_base(world.version, d)]
        G(lambda: setattr(comp, 'datatype', dts[i % len(dts)]))
        G(lambda: setattr(comp, 'value', 'x'))
        if i % 2 and fld.children.list:
            G(lambda: fld.children.remove(fld.children.list[0]))
    elif k == 'w_parent_none':
        # child.parent = None through the public setter: the child is detached - no element lists it any more
        src = reps(el)
        if not src:
            raise Skip()
        child = src[i % len(src)]
        world.detached.append(child)
        G(lambda: setattr(child, 'parent', None))
    elif k == 'w_reattach':
        src = reps(other)
        if src:
            offered = src[i % len(src)]
            G(lambda: el.add(offered))
    elif k == 'w_add_twice':
        src = reps(el)
        if src:
            offered = src[i % len(src)]
            G(lambda: el.add(offered))
    elif k == 'w_set_own':
        src = reps(el)
        if src:
            offered = src[i % len(src)]
            G(lambda: setattr(el, lname, offered))
    elif k == 'w_read':
        p = getattr(el, lname)
        len(p), repr(p), list(p)
        if world.kind == 'segment':
            row = world.rows[name]
            if row.kind == 'sequence':
                comps = tables.components(world.version, row.datatype)
                if comps and comps[0].ok:
                    q = getattr(p, comps[0].name.lower())
                    len(q), repr(q), list(q)
        el.to_er7()
        repr(el.children)
    elif k == 'w_parent_ctor':
        if world.kind == 'message':
            cls = core.Group if (world.group is not None and name == world.group.name) else core.Segment
            c = G(lambda: cls(name, parent=el, version=world.version, validation_level=world.level))
        else:
            c = G(lambda: _child_cls(world)(name, parent=el, version=world.version, validation_level=world.level))
            G(lambda: setattr(c, 'value', val))
        offered = c
    elif k == 'w_del_view':
        lo = 1 if world.kind == 'message' else 0       # a message keeps its MSH (it carries the delimiters)
        if len(el.children) > lo:
            G(lambda: el.children.__delitem__(lo + i % (len(el.children) - lo)))
    elif k == 'w_pop':
        lo = 1 if world.kind == 'message' else 0
        if len(el.children) > lo:
            world.detached.append(G(lambda: el.children.pop(lo + i % (len(el.children) - lo))))
    elif k == 'w_children_assign':
        kids_ = [_new_child(world, n, val + n[-1]) for n in world.names[:2]]
        world.detached += kids_
        if world.kind == 'message':
            raise Skip()      # replacing the children of a message drops its MSH: not a meaningful user operation
        G(lambda: setattr(el, 'children', kids_))
    elif k == 'w_value':
        if world.kind == 'segment':
            G(lambda: setattr(el, 'value', '%s|%s' % (world.seg, '|'.join([val, '', val + '~' + val]))))
        elif world.kind == 'field':
            G(lambda: setattr(el, 'value', '^'.join([val, '', val + 'c'])))
        elif world.kind == 'component':
            G(lambda: setattr(el, 'value', '&'.join([val, '', val + 'c'])))
        else:
            return None
    elif k == 'w_setitem_view':
        if len(el.children):
            j = i % len(el.children)
            ch = el.children.list[j]
            if ch.name in world.names:
                G(lambda: el.children.__setitem__(j, _child_text(world, ch.name, val)))
    elif k == 'w_deep_write':
        if world.kind == 'segment':
            row = world.rows[name]
            if row.kind == 'sequence':
                comps = [c for c in tables.components(world.version, row.datatype) if c.ok and c.card[1] != 0]
                if len(comps) > 1:
                    G(lambda: setattr(getattr(el, lname), comps[1].name.lower(), val))
        elif world.kind == 'message':
            g = world.group
            seg = g.children[0].name if g is not None and name == g.name else None
            if seg is None:
                G(lambda: setattr(getattr(el, lname), '%s_1' % lname, val[1:]))
    elif k == 'w_parent_assign':
        # move an element (attached to the other element, or detached) by assigning its parent
        src = reps(other) or [c for c in world.detached if treeinv.parent_of(c) is None and
                              c.__dict__.get('name') == name and c.__dict__.get('version') == world.version and
                              c.__dict__.get('validation_level') == world.level]
        if src:
            offered = src[i % len(src)]
            G(lambda: setattr(offered, 'parent', el))
    elif k == 'w_detached_readd':
        cands = [c for c in world.detached if treeinv.parent_of(c) is None and c.__dict__.get('name') in world.names
                 and c.__dict__.get('version') == world.version and c.__dict__.get('validation_level') == world.level]
        if cands:
            offered = cands[i % len(cands)]
            G(lambda: el.add(offered))
    else:
        raise KeyError(k)
    return offered
