"""Coverage-guided session for C15 (thorough tier): atheris drives parse_message / get_message_type with the same
exception-class oracle as the mutation fuzzer.  Leaks are printed as 'LEAK <json>' lines (one per distinct
(stage, exception type, innermost function)); the parent re-probes each with the real monitor.
Run: python hl7mon/atheris_c15.py -max_total_time=240
"""
import json
import os
import sys

HERE = os.path.dirname(os.path.dirname(os.path.abspath(__file__)))
sys.path.insert(0, HERE)
from hl7mon import env  # noqa: E402

env.import_hl7apy()
try:
    import atheris
except ImportError:
    print('ATHERIS-UNAVAILABLE')
    sys.exit(0)

with atheris.instrument_imports(include=['hl7apy.parser', 'hl7apy.core', 'hl7apy.validation', 'hl7apy.factories',
                                         'hl7apy.utils', 'hl7apy.base_datatypes']):
    from hl7apy import parser
    from hl7apy.exceptions import HL7apyException
import traceback

SEEN = set()
BASES = ['MSH|^~\\&|A|B|C|D|20200101||ADT^A01^ADT_A01|1|P|2.5\rEVN||20200101\rPID|1||1^^^X&1.2&ISO||D^J\rPV1|1|I',
         'MSH|^~\\&#|A|B|C|D|20200101||ORU^R01^ORU_R01|1|P|2.7\rPID|1\rOBR|1\rOBX|1|ST|X||v']


def leak(stage, e, text):
    fn = 'outside'
    for fs in traceback.extract_tb(e.__traceback__):
        if '/hl7apy/' in fs.filename:
            fn = fs.filename.split('/hl7apy/')[-1] + ':' + fs.name
    key = (stage, type(e).__name__, fn)
    if key not in SEEN:
        SEEN.add(key)
        print('LEAK ' + json.dumps({'stage': stage, 'exc': type(e).__name__, 'where': fn, 'text': text}), flush=True)


def one(data):
    fdp = atheris.FuzzedDataProvider(data)
    mode = fdp.ConsumeIntInRange(0, 3)
    text = fdp.ConsumeUnicodeNoSurrogates(400)
    if mode == 1:
        text = 'MSH|^~\\&|' + text
    elif mode == 2:
        b = BASES[fdp.ConsumeIntInRange(0, 1)]
        i = fdp.ConsumeIntInRange(0, len(b))
        text = b[:i] + text[:20] + b[i:]
    level = 1 + fdp.ConsumeIntInRange(0, 1) if False else (1 if mode == 3 else 2)
    try:
        parser.get_message_type(text)
    except HL7apyException:
        pass
    except Exception as e:
        leak('get_message_type', e, text)
    for fg in (True, False):
        try:
            m = parser.parse_message(text, validation_level=level, find_groups=fg)
        except HL7apyException:
            continue
        except ValueError as e:
            if level != 1:
                leak('parse_message', e, text)
            continue
        except Exception as e:
            leak('parse_message', e, text)
            continue
        try:
            m.to_er7()
        except Exception as e:
            leak('to_er7', e, text)
        try:
            m.validate(return_errors=True)
        except Exception as e:
            leak('validate', e, text)


if __name__ == '__main__':
    atheris.Setup(sys.argv, one)
    atheris.Fuzz()
