"""HL7 v2 lexical grammar of the base datatypes DT, TM, DTM, NM, SI (ASCII digits only).

member(dt, s) -> True (member), False (non-member) or None (the HL7 text does not settle it; such
strings are judged only for crash-freedom and TOLERANT preservation).
"""
import calendar
import re

_DT = re.compile(r'(\d{4})(?:(\d{2})(\d{2})?)?\Z', re.A)
_TM = re.compile(r'(\d{2})(?:(\d{2})(?:(\d{2})(?:\.(\d{1,4}))?)?)?([+-]\d{4})?\Z', re.A)
_DTM = re.compile(r'(\d{4}(?:\d{2}(?:\d{2})?)?)((?:\d{2}(?:\d{2}(?:\d{2}(?:\.\d{1,4})?)?)?)?)([+-]\d{4})?\Z', re.A)
_NM = re.compile(r'[+-]?\d+(\.\d+)?\Z', re.A)
_NM_UNSPEC = re.compile(r'[+-]?(\d+\.|\.\d+)\Z', re.A)
_PLAIN = re.compile(r'-?(0|[1-9]\d*)(\.\d+)?\Z', re.A)

MAXLEN = {'NM': 16, 'SI': 4}


def _date(s):
    m = _DT.match(s)
    if not m:
        return False
    y, mo, d = m.groups()
    y = int(y)
    if y < 1000:
        return None if y >= 1 else False      # years below 1000 are outside the quantifier
    if mo is not None and not 1 <= int(mo) <= 12:
        return False
    if d is not None and not 1 <= int(d) <= calendar.monthrange(y, int(mo))[1]:
        return False
    return True


def _offset(o):
    if o is None:
        return True
    sign, hh, mm = o[0], int(o[1:3]), int(o[3:5])
    if mm > 59 or hh > 23:
        return False
    if (sign == '+' and hh > 14) or (sign == '-' and hh > 12):
        return None                            # HL7 gives no bound; the library stops at +14 / -12
    return True


def _and(*vals):
    if any(v is False for v in vals):
        return False
    if any(v is None for v in vals):
        return None
    return True


def _time(s):
    m = _TM.match(s)
    if not m:
        return False
    h, mi, se, fr, off = m.groups()
    if int(h) > 23 or (mi is not None and int(mi) > 59) or (se is not None and int(se) > 59):
        return False
    return _offset(off)


def member(dt, s):
    if dt == 'DT':
        return _date(s)
    if dt == 'TM':
        return _time(s)
    if dt == 'DTM':
        m = _DTM.match(s)
        if not m:
            return False
        d, t, off = m.groups()
        if t and len(d) != 8:
            return False
        return _and(_date(d), _time(t) if t else True, _offset(off))
    if dt == 'NM':
        if _NM.match(s):
            return True
        if _NM_UNSPEC.match(s):
            return None
        return False
    if dt == 'SI':
        if re.match(r'\d{1,4}\Z', s, re.A):
            return True
        if re.match(r'(\+\d+|-0+|\d{5,})\Z', s, re.A):
            return None
        return False
    raise KeyError(dt)


def plain(s):
    """plain decimal form: no sign except '-', no superfluous leading zeros"""
    return bool(_PLAIN.match(s))
