"""Sharded runner: ./check <ID> [--tier quick|thorough] [--seed N] [--replay FILE] [--jobs N]

A property module (hl7mon.props.cNN) provides
    ID, LEVEL, RULE, ASSUMPTIONS, optional NEEDS (third-party deps)
    plan(tier, seed)      -> list of JSON-serialisable shard specs
    run_shard(spec, rec)  -> None (records into a Recorder)
    floors(tier, merged)  -> list of reasons why the run is inconclusive ([] = enough was observed)
    replay(case, rec)     -> None (re-executes one recorded case under the same monitor)
Shards run as separate processes (subprocess.run with a timeout; never multiprocessing.Pool).
Exit status: 0 held on what was observed, 1 VIOLATION, 2 INCONCLUSIVE.
"""
import argparse
import array
import concurrent.futures
import hashlib
import importlib
import json
import os
import shutil
import subprocess
import sys
import time
import traceback

from . import env
from . import findings as findings_mod
from . import evidence as evidence_mod

MAX_SAMPLES = 12
MAX_VIOL_KEYS = 3000


def sig_hash(obj):
    if not isinstance(obj, (str, bytes)):
        obj = json.dumps(obj, sort_keys=True, default=str)
    if isinstance(obj, str):
        obj = obj.encode('utf-8', 'surrogatepass')
    return int.from_bytes(hashlib.blake2b(obj, digest_size=8).digest(), 'big')


class Recorder(object):
    """Collects what one shard observed."""

    def __init__(self, prop_id, shard=0):
        self.prop_id = prop_id
        self.shard = shard
        self.evaluations = 0
        self.sigs = set()
        self.counters = {}
        self.seen_sets = {}
        self.samples = []
        self.violations = []
        self.violation_counts = {}
        self.inconclusive = []
        self.extra = {}

    # -- what was explored
    def evaluation(self, sig=None, nontrivial=True, n=1):
        self.evaluations += n
        if sig is not None and nontrivial:
            self.sigs.add(sig_hash(sig))

    def count(self, name, n=1):
        self.counters[name] = self.counters.get(name, 0) + n

    def seen(self, name, item):
        self.seen_sets.setdefault(name, set()).add(item if isinstance(item, str) else json.dumps(item, default=str))

    def sample(self, obj, force=False):
        if force or len(self.samples) < MAX_SAMPLES:
            self.samples.append(obj)

    # -- verdict material
    def violation(self, cause, case, detail=None, row=None):
        """cause: mechanism classification computed from the witness (string);
        row: for table-row properties the (version, parent, position) row as a string;
        case: replayable concrete input/history; detail: what the oracle saw."""
        key = (cause, row)
        self.violation_counts[key] = self.violation_counts.get(key, 0) + 1
        if self.violation_counts[key] <= (1 if row is not None else 4) and len(self.violations) < MAX_VIOL_KEYS:
            self.violations.append({'cause': cause, 'row': row, 'case': case, 'detail': detail})

    def inconclusive_reason(self, reason):
        self.inconclusive.append(reason)

    def dump(self, path):
        sig_path = path + '.sigs'
        with open(sig_path, 'wb') as f:
            array.array('Q', sorted(self.sigs)).tofile(f)
        out = {
            'shard': self.shard,
            'evaluations': self.evaluations,
            'counters': self.counters,
            'seen': {k: sorted(v) for k, v in self.seen_sets.items()},
            'samples': self.samples,
            'violations': self.violations,
            'violation_counts': [[c, r, n] for (c, r), n in self.violation_counts.items()],
            'inconclusive': self.inconclusive,
            'extra': self.extra,
            'sig_file': sig_path,
        }
        tmp = path + '.tmp'
        with open(tmp, 'w') as f:
            json.dump(out, f, default=str)
        os.replace(tmp, path)


def load_prop(prop_id):
    return importlib.import_module('hl7mon.props.%s' % prop_id.lower())


def ensure_deps(names):
    """Install third-party monitor libraries offline into /verif/.deps if they are missing."""
    missing = []
    for n in names:
        if not os.path.isdir(os.path.join(env.DEPS, n)):
            missing.append(n)
    if not missing:
        return
    os.makedirs(env.DEPS, exist_ok=True)
    cmd = [env.PYTHON, '-m', 'pip', 'install', '--quiet', '--no-index', '--find-links', env.WHEELS,
           '--target', env.DEPS] + missing
    subprocess.run(cmd, check=True, stdout=subprocess.DEVNULL, stderr=subprocess.PIPE,
                   env=dict(os.environ, PIP_NO_INDEX='1'), timeout=600)


# ---------------------------------------------------------------- shard process entry
def shard_main(argv):
    prop_id, spec_path, out_path = argv
    with open(spec_path) as f:
        spec = json.load(f)
    env.import_hl7apy()
    P = load_prop(prop_id)
    rec = Recorder(prop_id, spec.get('shard', 0))
    try:
        import faulthandler
        faulthandler.enable()
    except Exception:
        pass
    try:
        if spec.get('__replay__'):
            P.replay(spec['case'], rec)
        else:
            P.run_shard(spec, rec)
    except Exception:
        rec.inconclusive_reason('shard %s raised: %s' % (spec.get('shard'), traceback.format_exc()[-1500:]))
    rec.dump(out_path)
    return 0


# ---------------------------------------------------------------- orchestration
def _run_one(prop_id, spec, workdir, timeout):
    i = spec.get('shard', 0)
    spec_path = os.path.join(workdir, 'spec-%s.json' % i)
    out_path = os.path.join(workdir, 'out-%s.json' % i)
    with open(spec_path, 'w') as f:
        json.dump(spec, f)
    cmd = [env.PYTHON, '-X', 'faulthandler', '-m', 'hl7mon.runner', '--shard', prop_id, spec_path, out_path]
    t0 = time.time()
    try:
        p = subprocess.run(cmd, env=env.child_env(spec.get('env')), cwd=env.VERIF, timeout=timeout,
                           stdout=subprocess.PIPE, stderr=subprocess.PIPE)
        rc, err = p.returncode, p.stderr.decode('utf-8', 'replace')[-2000:]
    except subprocess.TimeoutExpired:
        rc, err = 'timeout', 'watchdog fired after %ss' % timeout
    res = None
    if os.path.exists(out_path):
        try:
            with open(out_path) as f:
                res = json.load(f)
        except Exception as e:  # truncated file
            err += ' unreadable result: %r' % (e,)
    return {'shard': i, 'rc': rc, 'stderr': err, 'result': res, 'wall': time.time() - t0}


def merge(results):
    m = {'evaluations': 0, 'counters': {}, 'seen': {}, 'samples': [], 'violations': [],
         'violation_counts': {}, 'inconclusive': [], 'extra': [], 'sigs': set(), 'shards': len(results),
         'dead_shards': 0}
    for r in results:
        res = r['result']
        if res is None or r['rc'] != 0:
            m['dead_shards'] += 1
            m['inconclusive'].append('shard %s died: rc=%s %s' % (r['shard'], r['rc'], r['stderr'][-600:]))
            if res is None:
                continue
        m['evaluations'] += res['evaluations']
        for k, v in res['counters'].items():
            m['counters'][k] = m['counters'].get(k, 0) + v
        for k, v in res['seen'].items():
            m['seen'].setdefault(k, set()).update(v)
        per = max(1, MAX_SAMPLES // max(1, len(results)))
        m['samples'].extend(res['samples'][:per])
        m['violations'].extend(res['violations'])
        for c, row, n in res['violation_counts']:
            m['violation_counts'][(c, row)] = m['violation_counts'].get((c, row), 0) + n
        m['inconclusive'].extend(res['inconclusive'])
        if res.get('extra'):
            m['extra'].append(res['extra'])
        try:
            a = array.array('Q')
            with open(res['sig_file'], 'rb') as f:
                a.frombytes(f.read())
            m['sigs'].update(a)
        except Exception as e:
            m['inconclusive'].append('signature file of shard %s unreadable: %r' % (r['shard'], e))
    m['samples'] = m['samples'][:MAX_SAMPLES]
    m['distinct_nontrivial'] = len(m['sigs'])
    return m


def main(argv=None):
    argv = list(sys.argv[1:] if argv is None else argv)
    if argv and argv[0] == '--shard':
        return shard_main(argv[1:])
    ap = argparse.ArgumentParser(prog='check')
    ap.add_argument('prop')
    ap.add_argument('--tier', default=env.tier_default(), choices=['quick', 'thorough'])
    ap.add_argument('--seed', type=int, default=env.seed_default())
    ap.add_argument('--replay', default=None)
    ap.add_argument('--jobs', type=int, default=min(16, os.cpu_count() or 4))
    ap.add_argument('--keep-work', action='store_true')
    args = ap.parse_args(argv)
    prop_id = args.prop.upper()
    t0 = time.time()
    P = load_prop(prop_id)
    needs = getattr(P, 'NEEDS', ())
    if needs:
        ensure_deps(needs)
    workdir = os.path.join(env.WORK, '%s-%d' % (prop_id, os.getpid()))
    shutil.rmtree(workdir, ignore_errors=True)
    os.makedirs(workdir)
    os.makedirs(env.EVIDENCE_DIR, exist_ok=True)
    try:
        if args.replay:
            with open(args.replay) as f:
                rep = json.load(f)
            specs = [{'shard': 0, '__replay__': True, 'case': rep['case'], 'env': rep.get('env')}]
        else:
            specs = P.plan(args.tier, args.seed)
            for i, s in enumerate(specs):
                s['shard'] = i
                s.setdefault('tier', args.tier)
                s.setdefault('seed', args.seed)
        timeout = getattr(P, 'SHARD_TIMEOUT', {'quick': 900, 'thorough': 5400})[args.tier]
        results = []
        with concurrent.futures.ThreadPoolExecutor(max_workers=max(1, args.jobs)) as ex:
            futs = [ex.submit(_run_one, prop_id, s, workdir, timeout) for s in specs]
            for f in futs:
                results.append(f.result())
        m = merge(results)
        m['tier'], m['seed'] = args.tier, args.seed
        if hasattr(P, 'post_merge'):
            P.post_merge(m)
        known = findings_mod.load()
        unknown, known_hits = findings_mod.classify(prop_id, m['violations'], m['violation_counts'], known)
        reasons = list(m['inconclusive'])
        if not args.replay:
            reasons.extend(P.floors(args.tier, m))
        wall = time.time() - t0
        replay_paths = []
        if unknown:
            os.makedirs(env.REPLAY_DIR, exist_ok=True)
            for n, v in enumerate(unknown[:10]):
                path = os.path.join(env.REPLAY_DIR, '%s-%d.json' % (prop_id, n))
                with open(path, 'w') as f:
                    json.dump({'property': prop_id, 'cause': v['cause'], 'row': v.get('row'), 'case': v['case'],
                               'detail': v.get('detail'), 'seed': args.seed, 'tier': args.tier}, f, indent=1,
                              default=str)
                replay_paths.append(path)
        if not args.replay:
            evidence_mod.write(P, m, known_hits, unknown, reasons, wall)
        for key, n in sorted(known_hits.items()):
            print('KNOWN-FINDING: property=%s %s (%d observation%s this run)' % (
                prop_id, known[(prop_id, key)]['what'], n, '' if n == 1 else 's'))
        print('%s tier=%s seed=%d shards=%d evaluations=%d distinct_nontrivial=%d wall=%.1fs' % (
            prop_id, args.tier, args.seed, m['shards'], m['evaluations'], m['distinct_nontrivial'], wall))
        if os.environ.get('VERIF_VERBOSE'):
            import collections
            print('  shard walls: %s' % ' '.join('%s:%.0fs' % (r['shard'], r['wall']) for r in results))
            cc = collections.Counter()
            ex = {}
            for (c, r), n in m['violation_counts'].items():
                cc[c] += n
                ex.setdefault(c, []).append(r)
            for c, n in cc.most_common():
                print('  cause %-60s obs=%d rows=%d e.g. %s' % (c, n, len(ex[c]), sorted(map(str, ex[c]))[:6]))
                for v in [v for v in m['violations'] if v['cause'] == c][:int(os.environ.get('VERIF_VERBOSE'))]:
                    print('      case=%s detail=%s' % (json.dumps(v['case'], default=str)[:260],
                                                      json.dumps(v['detail'], default=str)[:200]))
        if unknown:
            total = sum(m['violation_counts'].get((v['cause'], v.get('row')), 1) for v in unknown)
            for v, path in zip(unknown, replay_paths):
                print('VIOLATION property=%s replay=%s cause=%s %s' % (
                    prop_id, path, v['cause'], json.dumps(v.get('detail'), default=str)[:300]))
            print('%d unlisted violation observation(s) in %d distinct (cause,row) group(s)' % (total, len(unknown)))
            return 1
        if reasons:
            shown = set()
            for r in reasons:
                line = str(r).replace('\n', ' | ')
                key = line[-120:]
                if key in shown or len(shown) >= 4:
                    continue
                shown.add(key)
                print('INCONCLUSIVE property=%s reason=%s' % (prop_id, line[:160] + (' ... ' + line[-400:] if len(line) > 160 else '')))
            return 2
        if args.replay:
            print('replay: no violation reproduced')
        return 0
    finally:
        if not args.keep_work:
            shutil.rmtree(workdir, ignore_errors=True)
            try:
                os.rmdir(env.WORK)
            except OSError:
                pass


if __name__ == '__main__':
    sys.exit(main())
