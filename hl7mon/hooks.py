"""External instrumentation of the real hl7apy functions (nothing in /repo is edited).

* icontract contracts in record-and-return-True style (library code has broad `except Exception`
  blocks that would swallow a raising contract; icontract evaluates nothing after a raise).
* depth-tracked boundary wrappers with try/finally for everything that must hold after a raise.
Every contract / wrapper counts its evaluations; zero evaluations => the caller reports inconclusive.
"""
import functools
import threading

from . import env, er7ref

_lock = threading.Lock()


class MonitorLog(object):
    """thread-safe violation log + evaluation counters shared by contracts and wrappers"""

    def __init__(self):
        self.violations = []
        self.counts = {}

    def count(self, name, n=1):
        with _lock:
            self.counts[name] = self.counts.get(name, 0) + n

    def violation(self, kind, **detail):
        with _lock:
            if len(self.violations) < 2000:
                self.violations.append((kind, detail))

    def drain(self):
        with _lock:
            v, self.violations = self.violations, []
        return v


class ContractBroken(Exception):
    pass


# ---------------------------------------------------------------- C06: TextualDataType.to_er7
_installed = {}


def install_textual_contract(log):
    """icontract post-condition on the real TextualDataType.to_er7 (base and v2.7 variants):
    whatever encoding characters were passed, the result is well-formed and re-encoding it is the identity."""
    if 'textual' in _installed:
        _installed['textual'][0] = log
        return
    env.import_hl7apy()
    import icontract
    import hl7apy.base_datatypes as bd
    import hl7apy.v2_7.base_datatypes as bd27
    holder = [log]
    state = threading.local()

    def make(cls, letters, default_ec):
        orig = cls.__dict__['to_er7']

        def result_is_well_formed_and_stable(self, encoding_chars, result):
            lg = holder[0]
            if getattr(state, 'busy', False):
                return True
            ec = encoding_chars if encoding_chars is not None else default_ec()
            if not isinstance(self.value, str) or getattr(self, 'highlights', None):
                lg.count('textual_contract_skipped')
                return True
            lg.count('textual_contract_evaluations')
            state.busy = True
            try:
                if not er7ref.well_formed(result, ec, letters):
                    lg.violation('ill-formed-encoding', value=self.value, result=result, ec=_ec_str(ec),
                                 cls='%s.%s' % (type(self).__module__, type(self).__name__))
                else:
                    try:
                        clone = object.__new__(type(self))
                        clone.__dict__.update(self.__dict__)
                        clone.value = result
                        r2 = orig(clone, ec)
                    except Exception as e:   # pragma: no cover - reported as a violation below
                        r2 = 'raised %r' % (e,)
                    if r2 != result:
                        lg.violation('not-idempotent', value=self.value, result=result, again=r2, ec=_ec_str(ec),
                                     cls='%s.%s' % (type(self).__module__, type(self).__name__))
            finally:
                state.busy = False
            return True

        wrapped = icontract.ensure(result_is_well_formed_and_stable, error=ContractBroken)(orig)

        @functools.wraps(orig)
        def to_er7(self, encoding_chars=None):
            return wrapped(self, encoding_chars=encoding_chars)
        cls.to_er7 = to_er7

    from hl7apy import get_default_encoding_chars
    make(bd.TextualDataType, er7ref.LETTERS, lambda: get_default_encoding_chars())
    make(bd27.TextualDataType, er7ref.LETTERS27, lambda: get_default_encoding_chars('2.7'))
    _installed['textual'] = holder


def _ec_str(ec):
    return ''.join(ec.get(k, '') for k in ('FIELD', 'COMPONENT', 'SUBCOMPONENT', 'REPETITION', 'ESCAPE', 'TRUNCATION'))
