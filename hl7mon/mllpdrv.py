"""MLLP drivers and history checker (C16).

Events are recorded at the client boundary (send / recv / eof per connection) and inside harness-supplied handler
classes (constructor and reply, tagged with the control id the request carries).  The checker works offline on the
recorded history of one connection.

Two drivers:
* socketpair: one end is handed to the *real* server object's process_request() (an MLLPServer bound to an ephemeral
  port that never accepts), so finish_request / handle_error / shutdown_request run as in production; each chunk is sent
  only after the server side has drained the previous one (FIONREAD), which gives exact control of what the initial
  recv(3) and the buffered reads see.
* tcp: a real MLLPServer on loopback with N simultaneous clients; clients connect one by one (socketserver's listen
  backlog is 5), wait at a barrier, then send concurrently in random chunks.
"""
import array
import fcntl
import hashlib
import re
import socket
import sys
import termios
import threading
import time

SB, EB, CR = b'\x0b', b'\x1c', b'\x0d'


def digest(text):
    return hashlib.sha1(text.encode('utf-8', 'surrogatepass')).hexdigest()[:12]


def echo(text):
    """the last characters of the incoming text, as handlers put them in their replies: a reply holds whatever characters
    the message held (non-ASCII ones included)"""
    return (text or '')[-12:].replace('\r', ' ').replace('\n', ' ')


class History(object):
    def __init__(self):
        self.lock = threading.Lock()
        self.events = []

    def add(self, **ev):
        ev['t'] = len(self.events)
        with self.lock:
            self.events.append(ev)

    def handler_events(self):
        with self.lock:
            return [e for e in self.events if e['ev'] in ('ctor', 'err-ctor', 'reply', 'err-reply')]


def make_handlers(history, reply_delay=None):
    """handler classes recording into `history`; every reply echoes the digest of the message it was built from"""
    from hl7apy.mllp import AbstractHandler, AbstractErrorHandler

    class OkHandler(AbstractHandler):
        def __init__(self, message, *args):
            AbstractHandler.__init__(self, message)
            self.args = args
            history.add(ev='ctor', cls=type(self).__name__, msg=message, thread=threading.get_ident(), args=list(args))

        def reply(self):
            if reply_delay:
                reply_delay()
            r = 'ACK|%s|%s|%s' % (digest(self.incoming_message), ','.join(str(a) for a in self.args), echo(self.incoming_message))
            history.add(ev='reply', cls='OkHandler', msg=self.incoming_message, reply=r, thread=threading.get_ident())
            return r

    class OtherHandler(OkHandler):
        def reply(self):
            r = 'OTHER|%s|%s' % (digest(self.incoming_message), echo(self.incoming_message))
            history.add(ev='reply', cls='OtherHandler', msg=self.incoming_message, reply=r,
                        thread=threading.get_ident())
            return r

    class ErrHandler(AbstractErrorHandler):
        def __init__(self, exc, message, *args):
            AbstractErrorHandler.__init__(self, exc, message)
            history.add(ev='err-ctor', cls='ErrHandler', exc=type(exc).__name__, msg=message,
                        thread=threading.get_ident(), args=list(args))

        def reply(self):
            r = 'ERR|%s|%s|%s' % (type(self.exc).__name__, digest(self.incoming_message), echo(self.incoming_message))
            history.add(ev='err-reply', cls='ErrHandler', exc=type(self.exc).__name__, msg=self.incoming_message,
                        reply=r, thread=threading.get_ident())
            return r
    class RaisingHandler(AbstractHandler):
        """registered with the name of the exception its reply() raises: the server hands that exception to the ERR handler"""
        def __init__(self, message, excname, *args):
            AbstractHandler.__init__(self, message)
            self.excname = excname
            history.add(ev='ctor', cls='RaisingHandler', msg=message, thread=threading.get_ident(), args=[excname] + list(args))

        def reply(self):
            raise {'KeyError': KeyError, 'ValueError': ValueError, 'RuntimeError': RuntimeError,
                   'IndexError': IndexError}[self.excname]('raised by the handler')
    make_handlers.Raising = RaisingHandler
    return OkHandler, OtherHandler, ErrHandler


def unread(sock):
    if sock.fileno() < 0:
        return 0
    buf = array.array('i', [0])
    try:
        fcntl.ioctl(sock.fileno(), termios.FIONREAD, buf)
    except OSError:
        return 0
    return buf[0]


def read_all(sock, timeout=5.0):
    """-> (bytes received, how the stream ended: 'eof' | 'reset' | 'client-timeout')"""
    sock.settimeout(timeout)
    out = b''
    try:
        while True:
            d = sock.recv(65536)
            if not d:
                return out, 'eof'
            out += d
    except socket.timeout:
        return out, 'client-timeout'
    except (ConnectionResetError, BrokenPipeError):
        return out, 'reset'


class PairDriver(object):
    """drives the real server object over socket.socketpair()"""

    def __init__(self, handlers, timeout=5.0, encoding=None):
        from hl7apy.mllp import MLLPServer, MLLPRequestHandler
        if encoding is None:
            self.server = MLLPServer('127.0.0.1', 0, handlers, timeout=timeout)
        else:
            # the documented way to serve another character set: a request handler class with its own `encoding`
            cls = type('Handler_' + re.sub(r'\W', '_', encoding), (MLLPRequestHandler,), {'encoding': encoding})
            self.server = MLLPServer('127.0.0.1', 0, handlers, timeout=timeout, request_handler_class=cls)
        self.encoding = encoding or 'utf-8'
        self.timeout = timeout
        self.n = 0
        self.max_gap = 0.0     # longest time the server side was left without the next chunk during the last run()

    def close(self):
        self.server.server_close()

    def run(self, chunks, client_wait=5.0):
        """chunks: list of bytes | None (half-close) | ('sleep', seconds).  -> (received, ending, thread_alive)"""
        a, b = socket.socketpair()
        self.n += 1
        threads_before = set(threading.enumerate())
        self.max_gap = 0.0
        last = time.monotonic()
        self.server.process_request(b, ('socketpair', self.n))
        for c in chunks:
            if not isinstance(c, tuple):
                now = time.monotonic()
                self.max_gap = max(self.max_gap, now - last)
                last = now
            if c is None:
                try:
                    a.shutdown(socket.SHUT_WR)
                except OSError:
                    pass
                continue
            if isinstance(c, tuple):
                time.sleep(c[1])
                last = time.monotonic()     # a deliberate stall is not a scheduling hiccup
                continue
            try:
                a.sendall(c)
            except (BrokenPipeError, ConnectionResetError, OSError):
                break
            deadline = time.time() + 1.0
            while unread(b) > 0 and time.time() < deadline:
                time.sleep(0.0003)
            time.sleep(0.0008)
        out, ending = read_all(a, client_wait)
        a.close()
        alive = False
        for t in set(threading.enumerate()) - threads_before:
            t.join(3.0)
            alive = alive or t.is_alive()
        return out, ending, alive


def frame(text, encoding='utf-8'):
    return SB + text.encode(encoding) + CR + EB + CR


def splittings(n, k):
    """all ways to cut a sequence of n bytes into <= k non-empty chunks: yields tuples of cut positions"""
    if k >= 1:
        yield ()
    if k >= 2:
        for i in range(1, n):
            yield (i,)
    if k >= 3:
        for i in range(1, n):
            for j in range(i + 1, n):
                yield (i, j)


def cut(data, cuts):
    out, prev = [], 0
    for c in list(cuts) + [len(data)]:
        out.append(data[prev:c])
        prev = c
    return out


# ---------------------------------------------------------------- offline checker
def expected_outcome(payload_text, registered):
    """what the statement prescribes for a well-framed payload: ('ok', handler class) | ('err', exception name)"""
    first = payload_text.split('\r', 1)[0]
    if not (first.startswith('MSH') and len(first) > 3 and not first[3].isspace()):
        return ('err', 'InvalidHL7Message')
    f = first[3]
    fields = first.split(f)
    msh9 = fields[8].strip() if len(fields) > 8 else None
    if msh9 in registered:
        return ('ok', registered[msh9], msh9)
    return ('err', 'UnsupportedMessageType')


def check_connection(evs, sent_payload, received, ending, registered, kind, args_by_key=None, encoding='utf-8'):
    """evs: handler events attributed to this connection; kind: 'framed' | 'malformed' | 'degenerate'
    -> list of (cause, detail)"""
    out = []
    ctors = [e for e in evs if e['ev'] in ('ctor', 'err-ctor')]
    replies = [e for e in evs if e['ev'] in ('reply', 'err-reply')]
    if ending not in ('eof', 'reset'):
        out.append(('connection-not-closed', {'ending': ending}))
    if kind == 'malformed':
        if ctors or replies:
            out.append(('handler-invoked-for-malformed-input', {'events': [e['ev'] for e in evs]}))
        if received:
            out.append(('reply-sent-for-malformed-input', {'received': received[:60]}))
        return out
    if kind == 'degenerate':
        if len(ctors) > 1:
            out.append(('more-than-one-handler-invocation', {'n': len(ctors)}))
        return out
    want0 = expected_outcome(sent_payload, registered)
    if want0[0] == 'ok' and str(want0[1]).startswith('Raising:'):
        # the registered handler is invoked and raises: the ERR handler answers, and is given that very exception
        exc = want0[1].split(':', 1)[1]
        kinds = [(e['ev'], e.get('cls'), e.get('exc')) for e in ctors]
        if kinds != [('ctor', 'RaisingHandler', None), ('err-ctor', 'ErrHandler', exc)] or len(replies) != 1 or \
                replies[0]['ev'] != 'err-reply':
            out.append(('exception-of-a-registered-handler-not-handed-to-ERR', {'handlers': kinds, 'expected_exception': exc,
                                                                               'replies': len(replies)}))
        elif received != replies[0]['reply'].encode(encoding):
            out.append(('client-received-other-bytes-than-the-reply', {'received': received[:80]}))
        return out
    if len(ctors) != 1 or len(replies) != 1:
        out.append(('not-exactly-one-handler-invocation', {'ctors': len(ctors), 'replies': len(replies)}))
        return out
    c, r = ctors[0], replies[0]
    if c['msg'].rstrip('\r') != sent_payload.rstrip('\r') or not sent_payload.startswith(c['msg'].rstrip('\r')):
        out.append(('handler-got-different-text', {'got': c['msg'][:80], 'sent': sent_payload[:80]}))
    want = expected_outcome(sent_payload, registered)
    if want[0] == 'ok':
        if c['ev'] != 'ctor' or c['cls'] != want[1]:
            out.append(('wrong-handler-routed', {'got': c.get('cls'), 'exc': c.get('exc'), 'want': want[1]}))
    else:
        if c['ev'] != 'err-ctor' or c.get('exc') != want[1]:
            out.append(('wrong-error-routing', {'got': c.get('cls'), 'exc': c.get('exc'), 'want': want[1]}))
    if args_by_key is not None:
        # the handler is built with the extra arguments it was registered with
        key = want[2] if want[0] == 'ok' else 'ERR'
        if key in args_by_key and c.get('args') is not None and list(c['args']) != list(args_by_key[key]):
            out.append(('handler-built-without-its-registered-arguments', {'key': key, 'got': c.get('args'),
                                                                         'registered': list(args_by_key[key])}))
    if received != r['reply'].encode(encoding):
        out.append(('client-received-other-bytes-than-the-reply', {'received': received[:80], 'reply': r['reply'][:80]}))
    return out
