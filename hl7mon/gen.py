"""Shared workload generators (seeded; nothing here decides a verdict)."""
import random
import string

from . import tables, er7ref

# a valid literal per base datatype (valid under STRICT too)
WIT = {'ST': 'x', 'ID': 'A', 'IS': 'A', 'NM': '1', 'SI': '1', 'DT': '20200101', 'DTM': '20200101',
       'TM': '1200', 'TX': 'x', 'FT': 'x', 'TN': '5551234', 'GTS': 'x', 'WD': 'x', 'SNM': '1', 'CM': 'x',
       'varies': 'x'}

TYPED = {
    'NM': ['0', '1', '-1', '12.5', '-0.25', '100', '3.14159', '42', '0.5', '1000000', '0.0000001', '-0.00000025',
           '10.50', '1.0', '0.000010', '12345678901234.5', '0.0000000', '-0.00000000', '0.000000000000', '0.0', '-0',
           '00.00000001'[1:]],
    'SI': ['0', '1', '2', '17', '999', '9999'],
    'DT': ['2020', '202002', '20200229', '19991231', '1000', '99991231', '20240101'],
    'DTM': ['2020', '202002', '20200229', '2020022913', '202002291359', '20200229135901', '20200229135901.1',
            '20200229135901.1234', '20200229135901+0100', '2020-0500', '202002291359-1200',
            # offsets at and beyond the bounds the library knows: whatever it thinks of them, TOLERANT keeps the text
            '20240102030405-1300', '20240102030405-1459', '2024+1459', '202401-1201', '20240102+1500',
            # more fractional digits than HL7 allows: no DTM for STRICT, text like any other for TOLERANT
            '20200229135901.12345', '19800101120000.123456+0100', '20200229135901.1234567'],
    'TM': ['13', '1359', '135901', '135901.12', '135901.1234', '1359+0100', '13-0500', '0000', '235959',
           '1200-1300', '1200-1400', '1200+1459', '1200-1201', '1200+1500', '135901.12345', '135901.123456-0500',
           '135901.1234567'],
    'TN': ['5551234', '555-1234', '(02)555-1234', '01 (02)555-1234X12B34Ctext'],
    'SNM': ['1', '12', '0012'],
}

ALNUM = string.ascii_letters + string.digits


def rng_for(seed, *parts):
    return random.Random('%s/%s' % (seed, '/'.join(str(p) for p in parts)))


def witness(version, datatype):
    return WIT.get(datatype, 'x')


def escape_sequences(ec):
    esc = ec['ESCAPE']
    return [esc + l + esc for l in er7ref.letters_for(ec)]


def typed_literal(rng, ec, datatype):
    """a plain-form literal of a typed leaf that holds none of the delimiters of `ec` ('-0.25' is not a number where '-' is
    the repetition separator)"""
    marks = set(v for k, v in ec.items() if k not in ('SEGMENT', 'GROUP'))
    ok = [t for t in TYPED[datatype] if not marks & set(t)]
    return rng.choice(ok) if ok else WIT.get(datatype, 'x')


def leaf_text(rng, ec, datatype='ST', allow_escapes=True, maxlen=8):
    """canonical leaf text: no leading/trailing blank, well-formed escapes, typed literals in plain form"""
    if datatype in TYPED and rng.random() < 0.9:
        return typed_literal(rng, ec, datatype)
    if datatype in ('NM', 'SI', 'DT', 'DTM', 'TM', 'TN', 'SNM'):
        return WIT[datatype]
    n = rng.randint(1, maxlen)
    parts = []
    marks = set(ec.values())
    plain = [c for c in string.punctuation if c not in marks]
    for i in range(n):
        r = rng.random()
        if allow_escapes and r < 0.12:
            parts.append(rng.choice(escape_sequences(ec)))
        elif r < 0.2 and 0 < i < n - 1:
            parts.append(' ')
        elif r < 0.3:
            # punctuation that is no delimiter of *this* set is plain data (it may be the escape character or a
            # separator of another set used in the same process)
            parts.append(rng.choice(plain) if plain else 'p')
        else:
            parts.append(rng.choice(ALNUM))
    s = ''.join(parts)
    if s != s.strip() or not s:
        s = 'a' + s.strip() + 'b'
    return s


class Tokens(object):
    """unique alphanumeric tokens for conservation checks"""

    def __init__(self, prefix):
        self.prefix = prefix
        self.n = 0

    def next(self):
        self.n += 1
        return 'u%sx%d' % (self.prefix, self.n)


def delimiter_set(rng, version, with_truncation=None):
    pool = [c for c in string.punctuation if c not in '._']
    if with_truncation is None:
        with_truncation = er7ref.vkey(version) >= (2, 7) and rng.random() < 0.5
    k = 6 if with_truncation else 5
    chars = rng.sample(pool, k)
    ec = {'FIELD': chars[0], 'COMPONENT': chars[1], 'SUBCOMPONENT': chars[2], 'REPETITION': chars[3],
          'ESCAPE': chars[4], 'SEGMENT': '\r', 'GROUP': '\r'}
    if with_truncation:
        ec['TRUNCATION'] = chars[5]
    return ec


def full_ec(ec):
    d = dict(ec)
    d.setdefault('SEGMENT', '\r')
    d.setdefault('GROUP', '\r')
    return d


def msh2(ec):
    s = ec['COMPONENT'] + ec['REPETITION'] + ec['ESCAPE'] + ec['SUBCOMPONENT']
    return s + ec.get('TRUNCATION', '')


def field_value(rng, version, row, ec, toks=None, max_reps=3, allow_escapes=True, depth_limit=2):
    """canonical ER7 text for one field row (tables.FieldRow) with a shape its datatype permits.
    Returns text (never empty, no trailing empties)."""
    def leaf(dt):
        if toks is not None:
            if dt in TYPED and rng.random() < 0.15:
                return typed_literal(rng, ec, dt)      # boundary literals of typed leaves ('0', '2020', ...) among the tokens
            return toks.next()
        return leaf_text(rng, ec, dt, allow_escapes)

    def comp_text(crow):
        if crow.kind == 'leaf' or tables.is_base(version, crow.datatype) or not crow.ok:
            return leaf(crow.datatype)
        subs = [r for r in tables.components(version, crow.datatype)]
        if not subs or any(not s.ok or s.kind != 'leaf' for s in subs):
            # deeper than sub-component level cannot be expressed: populate only the first leaf-like
            return leaf('ST' if not subs else subs[0].datatype if subs[0].kind == 'leaf' else 'ST')
        last = rng.randint(1, len(subs))
        vals = []
        for k, s in enumerate(subs[:last]):
            populate = (k == last - 1) or rng.random() < 0.5
            vals.append(leaf(s.datatype) if populate and s.card[1] != 0 else '')
        if vals[-1] == '':
            vals[-1] = leaf(subs[last - 1].datatype)
        return ec['SUBCOMPONENT'].join(vals)

    def rep_text():
        if row.kind == 'leaf':
            if row.datatype == 'varies':
                n = rng.randint(1, 3)
                return ec['COMPONENT'].join(leaf('ST') for _ in range(n))
            return leaf(row.datatype)
        comps = tables.components(version, row.datatype)
        if not comps:
            return leaf('ST')
        last = rng.randint(1, len(comps))
        vals = []
        for j, c in enumerate(comps[:last]):
            populate = (j == last - 1) or rng.random() < 0.5
            vals.append(comp_text(c) if populate else '')
        return ec['COMPONENT'].join(vals)

    maxrep = row.card[1] if row.card and row.card[1] not in (-1, 0) else max_reps
    n = rng.randint(1, max(1, min(max_reps, maxrep))) if rng.random() < 0.4 else 1
    return ec['REPETITION'].join(rep_text() for _ in range(n))


def usable_rows(version, seg):
    rows = tables.segments(version).get(seg) or []
    return [r for r in rows if r.ok and r.card[1] != 0 and not (seg == 'MSH' and r.num in (1, 2))]


def segment_line(rng, version, seg, ec, toks=None, max_fields=5, allow_escapes=True, rows=None):
    """canonical ER7 line for a segment: a random subset of its defined, non-withdrawn fields populated with
    shapes their datatypes permit.  -> (text, [row names populated])"""
    rows = usable_rows(version, seg) if rows is None else rows
    if not rows:
        return seg, []
    k = rng.randint(1, min(max_fields, len(rows)))
    chosen = sorted(rng.sample(rows, k), key=lambda r: r.num)
    vals = {r.num: field_value(rng, version, r, ec, toks, allow_escapes=allow_escapes) for r in chosen}
    top = max(vals)
    f = ec['FIELD']
    if seg == 'MSH':
        body = f.join(vals.get(i, '') for i in range(3, top + 1))
        return 'MSH' + f + msh2(ec) + (f + body if body else ''), [r.name for r in chosen]
    return f.join([seg] + [vals.get(i, '') for i in range(1, top + 1)]), [r.name for r in chosen]
