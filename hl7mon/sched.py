"""Schedule control with sys.monitoring (CPython 3.12): LINE events in the hl7apy logic modules.

* Baton: a deterministic two-thread scheduler.  Exactly one logical thread runs at a time; a thread hands the baton over
  at planned points (its n-th LINE event, or its n-th event inside an *anchor* function) and gets it back when the other
  thread finishes or yields in turn.  A hand-over to a thread that cannot make progress (e.g. blocked on the import lock
  held by the yielding thread) times out and is recorded as 'blocked', so schedules through lazy imports do not deadlock.
* YieldInjector: seeded probabilistic time.sleep(0) at LINE events, concentrated on anchor functions.
The table modules (segments/fields/datatypes/messages/groups/tables .py) return DISABLE: they are data.
"""
import os
import random
import sys
import threading
import time

mon = sys.monitoring
TOOL = 3

DATA_MODULES = {'segments.py', 'fields.py', 'datatypes.py', 'messages.py', 'groups.py', 'tables.py'}
# (file tail, function name) pairs that touch process-wide shared state (or None = any function of that file)
ANCHOR_FUNCS = {
    ('hl7apy/factories.py', 'datatype_factory'),
    ('hl7apy/__init__.py', 'load_library'), ('hl7apy/__init__.py', 'load_reference'),
    ('hl7apy/__init__.py', 'find_reference'), ('hl7apy/__init__.py', 'get_default_encoding_chars'),
    ('hl7apy/core.py', 'is_base_datatype'), ('hl7apy/core.py', '_parse_structure'), ('hl7apy/core.py', 'get_structure'),
    ('hl7apy/core.py', 'parse_child'), ('hl7apy/core.py', 'parse_children'),
    ('hl7apy/base_datatypes.py', '_escape_value'), ('hl7apy/base_datatypes.py', '_get_translations'),
}
ANCHOR_QUALNAMES = {('hl7apy/core.py', 'Group.__init__')}


def _tail(filename):
    f = filename.replace('\\', '/')
    i = f.rfind('/hl7apy/')
    return f[i + 1:] if i >= 0 else None


_file_class = {}


def classify(code):
    """None = not ours (DISABLE); 'logic' | 'anchor'"""
    key = (code.co_filename, code.co_name, getattr(code, 'co_qualname', ''))
    r = _file_class.get(key)
    if r is not None:
        return r or None
    tail = _tail(code.co_filename)
    res = ''
    if tail and os.path.basename(tail) not in DATA_MODULES:
        res = 'logic'
        parts = tail.split('/')
        if code.co_name == '<module>':
            res = 'anchor'          # a module body running = an import in progress: other threads may meet the half-built module
        if res == 'anchor':
            pass
        elif len(parts) == 3 and parts[1].startswith('v2_') and parts[2] in ('__init__.py', 'base_datatypes.py'):
            res = 'anchor'          # per-version accessors, BASE_DATATYPES construction, module-level code
        elif (tail, code.co_name) in ANCHOR_FUNCS or (tail, getattr(code, 'co_qualname', '')) in ANCHOR_QUALNAMES:
            res = 'anchor'
        elif tail in ('hl7apy/factories.py', 'hl7apy/__init__.py', 'hl7apy/mllp.py'):
            res = 'anchor'          # the modules owning the process-wide defaults, the library registry and the factories
        elif _touches_shared_state(code):
            res = 'anchor'          # any function reading/writing a module-level or cache-like class-level container
    _file_class[key] = res
    return res or None


_shared_names = {}


def _shared_names_of(filename):
    """names through which code of this module can reach process-wide mutable state: module-level dict/list/set objects,
    and class-level ones whose name looks like a cache or registry (leading underscore or upper case)"""
    mod = None
    for m in list(sys.modules.values()):
        if getattr(m, '__file__', None) == filename:
            mod = m
            break
    names = set()
    if mod is not None:
        for n, v in list(vars(mod).items()):
            if isinstance(v, (dict, list, set, bytearray)) and not n.startswith('__'):
                names.add(n)
            elif isinstance(v, type) and getattr(v, '__module__', None) == mod.__name__:
                for a, av in list(vars(v).items()):
                    if isinstance(av, (dict, list, set)) and (a.startswith('_') or a.isupper()) and not a.startswith('__'):
                        names.add(a)
    return names, mod is not None


def _touches_shared_state(code):
    import dis
    try:
        prev = None
        for ins in dis.get_instructions(code):
            if ins.opname in ('STORE_GLOBAL', 'DELETE_GLOBAL'):
                return True
            # an attribute stored on a class or module object: `SomeClass.attr = ...`, `cls.attr = ...`,
            # `self.__class__.attr = ...`, `type(self).attr = ...`
            if ins.opname in ('STORE_ATTR', 'DELETE_ATTR') and prev is not None and code.co_name != '<module>':
                if prev.opname in ('LOAD_GLOBAL', 'LOAD_NAME') or \
                        (prev.opname in ('LOAD_FAST', 'LOAD_DEREF') and prev.argval in ('cls', 'klass')) or \
                        (prev.opname == 'LOAD_ATTR' and prev.argval == '__class__'):
                    return True
            if ins.opname not in ('CACHE', 'EXTENDED_ARG', 'NOP'):
                prev = ins
    except Exception:
        pass
    names, found = _shared_names.get(code.co_filename, (None, False))
    if names is None or not found:
        names, found = _shared_names_of(code.co_filename)
        _shared_names[code.co_filename] = (names, found)
    return bool(names & set(code.co_names))


_active = {'cb': None}
_instrumented = set()


def _dispatch(code, line):
    cb = _active['cb']
    if cb is None:
        return mon.DISABLE
    kind = classify(code)
    if kind is None:
        return mon.DISABLE
    return cb(code, line, kind)


def _nested_codes(code):
    yield code
    for c in code.co_consts:
        if hasattr(c, 'co_code'):
            for x in _nested_codes(c):
                yield x


def _instrument(code):
    """enable LINE events locally on a logic code object and on the code objects nested in it"""
    for c in _nested_codes(code):
        if c in _instrumented:
            continue
        _instrumented.add(c)
        if classify(c) is not None:
            mon.set_local_events(TOOL, c, mon.events.LINE)


def _on_py_start(code, offset):
    """global PY_START: discovers code objects of modules imported while monitoring is on (lazy version libraries).
    LINE events are never enabled globally: the table modules are ~9 MB of dict literals."""
    if _active['cb'] is not None and code not in _instrumented:
        kind = classify(code)
        if kind is not None:
            _instrument(code)
            if code.co_name == '<module>':
                # the module body itself runs once and is already executing: its start is offered as one switch point
                _active['cb'](code, code.co_firstlineno, kind)
        else:
            _instrumented.add(code)
    return mon.DISABLE


def _logic_code_objects():
    import types
    out = []
    for name, mod in list(sys.modules.items()):
        if not (name == 'hl7apy' or name.startswith('hl7apy.')):
            continue
        f = getattr(mod, '__file__', None)
        if not f or os.path.basename(f) in DATA_MODULES or _tail(f) is None:
            continue
        for v in list(vars(mod).values()):
            cands = []
            if isinstance(v, types.FunctionType):
                cands.append(v)
            elif isinstance(v, type) and getattr(v, '__module__', None) == name:
                for a in vars(v).values():
                    if isinstance(a, types.FunctionType):
                        cands.append(a)
                    elif isinstance(a, (staticmethod, classmethod)):
                        cands.append(a.__func__)
                    elif isinstance(a, property):
                        cands += [x for x in (a.fget, a.fset, a.fdel) if x is not None]
            for fn in cands:
                fn = getattr(fn, '__wrapped__', fn)
                code = getattr(fn, '__code__', None)
                if code is not None and _tail(code.co_filename):
                    out.append(code)
    return out


_installed = [False]


def install():
    if not _installed[0]:
        mon.use_tool_id(TOOL, 'hl7mon')
        mon.register_callback(TOOL, mon.events.LINE, _dispatch)
        mon.register_callback(TOOL, mon.events.PY_START, _on_py_start)
        _installed[0] = True


def start(cb):
    install()
    _active['cb'] = cb
    for code in _logic_code_objects():
        _instrument(code)
    mon.set_events(TOOL, mon.events.PY_START)
    mon.restart_events()


def stop():
    _active['cb'] = None
    if _installed[0]:
        mon.set_events(TOOL, 0)
        for c in list(_instrumented):
            try:
                mon.set_local_events(TOOL, c, 0)
            except Exception:
                pass
        _instrumented.clear()


class Baton(object):
    """plan: {logical thread: {'any': set(event indices), 'anchor': set(anchor-event indices),
    'anchor_first': set(ordinals of distinct anchor locations, switching at their first hit)}}"""

    def __init__(self, plan, block_timeout=0.05):
        self.cv = threading.Condition()
        self.turn = 0
        self.alive = [True, True]
        self.count = [0, 0]
        self.acount = [0, 0]
        self.plan = plan
        self.trace = []
        self.blocked = 0
        self.block_timeout = block_timeout
        self.tl = threading.local()
        self.anchor_lines = set()
        self.first_seen = [set(), set()]      # distinct anchor locations per logical thread, in order of first hit
        self.aseq = [[], []]                  # anchor events per logical thread: (file tail, function, line)
        # LINE events of non-anchor code are needed only by plans that switch at 'any' event
        self.need_any = any('any' in v for v in plan.values())

    def on_line(self, code, line, kind):
        me = getattr(self.tl, 'me', None)
        if me is None:
            return None
        if kind != 'anchor' and not self.need_any:
            return mon.DISABLE     # this location stays off until the next start() (restart_events)
        self.count[me] += 1
        hit = self.count[me] in self.plan.get(me, {}).get('any', ())
        if kind == 'anchor':
            self.acount[me] += 1
            self.anchor_lines.add((_tail(code.co_filename), line))
            self.aseq[me].append((_tail(code.co_filename), code.co_name, line))
            hit = hit or self.acount[me] in self.plan.get(me, {}).get('anchor', ())
            loc = (code.co_filename, code.co_name, line)
            if loc not in self.first_seen[me]:
                self.first_seen[me].add(loc)
                # 'anchor_first': hand over the first time the d-th distinct anchor location is reached
                hit = hit or len(self.first_seen[me]) in self.plan.get(me, {}).get('anchor_first', ())
        if hit:
            self.trace.append((me, _tail(code.co_filename), code.co_name, line))
            self.yield_to_other(me)
        return None

    def yield_to_other(self, me):
        other = 1 - me
        with self.cv:
            if not self.alive[other]:
                return
            self.turn = other
            self.cv.notify_all()
            progress = self.count[other]
            while self.turn != me and self.alive[other]:
                if not self.cv.wait(self.block_timeout):
                    if self.count[other] == progress and self.turn != me:
                        # the other thread is not making progress in our code (blocked on a lock we hold?): take over
                        self.blocked += 1
                        self.trace.append((me, 'blocked-switch', '', 0))
                        break
                    progress = self.count[other]
            self.turn = me

    def wait_turn(self, me):
        with self.cv:
            while self.turn != me and self.alive[1 - me]:
                self.cv.wait(self.block_timeout)
                if self.turn != me and not self.alive[1 - me]:
                    break
            self.turn = me

    def done(self, me):
        with self.cv:
            self.alive[me] = False
            self.turn = 1 - me
            self.cv.notify_all()

    def worker(self, me, fn, out):
        self.tl.me = me
        self.wait_turn(me)
        try:
            out[me] = fn()
        except BaseException as e:      # the outcome of the call, compared by the caller
            out[me] = 'EXC:%s' % type(e).__name__
        finally:
            self.tl.me = None
            self.done(me)


def run_pair(fn0, fn1, plan, join_timeout=60):
    """run two calls under the baton; -> (outcomes, baton)"""
    b = Baton(plan)
    out = [None, None]
    start(b.on_line)
    try:
        ts = [threading.Thread(target=b.worker, args=(i, (fn0, fn1)[i], out)) for i in range(2)]
        for t in ts:
            t.start()
        for t in ts:
            t.join(join_timeout)
        hung = any(t.is_alive() for t in ts)
    finally:
        stop()
    return out, b, hung


class YieldInjector(object):
    def __init__(self, seed, p_logic=0.002, p_anchor=0.2):
        self.rng = random.Random(seed)
        self.lock = threading.Lock()
        self.p_logic, self.p_anchor = p_logic, p_anchor
        self.yields = 0
        self.anchor_yields = 0
        self.events = 0

    def on_line(self, code, line, kind):
        with self.lock:
            self.events += 1
            r = self.rng.random()
        if r < (self.p_anchor if kind == 'anchor' else self.p_logic):
            with self.lock:
                self.yields += 1
                if kind == 'anchor':
                    self.anchor_yields += 1
            time.sleep(0)
        return None
