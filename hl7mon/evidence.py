"""Evidence writer: /verif/evidence/<id>.json, validated against the schema when jsonschema
is importable (it is not required at run time)."""
import json
import os

from . import env

SCHEMA = '/root/.vp/EVIDENCE.schema.json'


def write(P, m, known_hits, unknown, reasons, wall):
    cov = {
        'evaluations': int(m['evaluations']),
        'distinct_nontrivial': int(m['distinct_nontrivial']),
        'rule': P.RULE,
        'samples': m['samples'] or ['(no sample recorded)'],
        'monitor_events': dict(sorted(m['counters'].items())),
        'observed_sets': {k: (sorted(v) if len(v) <= 40 else {'count': len(v), 'first': sorted(v)[:20]})
                          for k, v in sorted(m['seen'].items())},
        'shards': m['shards'],
        'dead_shards': m['dead_shards'],
        'known_findings_hit': known_hits,
        'unlisted_violation_groups': len(unknown),
        'inconclusive_reasons': [str(r)[:300] for r in reasons[:10]],
        'verdict': 'violated' if unknown else ('inconclusive' if reasons else 'held on what was observed'),
    }
    if getattr(P, 'EXHAUSTIVE', False) and not reasons:
        cov['exhaustive'] = True
    extra = m.get('coverage_extra')
    if extra:
        cov.update(extra)
    ev = {
        'property_id': P.ID,
        'tier': m['tier'],
        'seed': int(m['seed']),
        'level': P.LEVEL,
        'coverage': cov,
        'assumptions': list(P.ASSUMPTIONS),
        'wall_s': round(wall, 2),
        'violations': len(unknown),
    }
    path = os.path.join(env.EVIDENCE_DIR, '%s.json' % P.ID)
    tmp = path + '.tmp'
    with open(tmp, 'w') as f:
        json.dump(ev, f, indent=1, default=str)
    os.replace(tmp, path)
    return path
