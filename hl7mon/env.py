"""Environment set-up shared by every check: where the tree under test lives, import
order, byte-code cache location, seeds and tiers.

Importing this module puts the repository (HL7APY_REPO, default /repo) first on sys.path
so that `import hl7apy` always means "the current working tree", never an installed copy.
"""
import os
import sys

VERIF = os.path.dirname(os.path.dirname(os.path.abspath(__file__)))
REPO = os.path.abspath(os.environ.get('HL7APY_REPO', '/repo'))
DEPS = os.path.join(VERIF, '.deps')
WORK = os.path.join(VERIF, '.work')
EVIDENCE_DIR = os.environ.get('VERIF_EVIDENCE_DIR') or os.path.join(VERIF, 'evidence')
REPLAY_DIR = os.environ.get('VERIF_REPLAY_DIR') or os.path.join(VERIF, 'replay')
WHEELS = '/opt/veriftools/wheels'
PYTHON = sys.executable

if REPO not in sys.path[:1]:
    sys.path.insert(0, REPO)
if DEPS not in sys.path:
    sys.path.append(DEPS)
if VERIF not in sys.path:
    sys.path.insert(1, VERIF)


def child_env(extra=None):
    env = dict(os.environ)
    env['PYTHONHASHSEED'] = '0'
    env['PYTHONPYCACHEPREFIX'] = os.path.join(VERIF, '.cache', 'pyc')
    env['HL7APY_REPO'] = REPO
    env['PYTHONPATH'] = VERIF
    env.pop('HL7APY_VERIF', None)
    if extra:
        env.update(extra)
    return env


def import_hl7apy():
    """Import the library from the tree under test and make sure that is what we got."""
    import hl7apy
    got = os.path.dirname(os.path.dirname(os.path.abspath(hl7apy.__file__)))
    if got != REPO:
        raise RuntimeError('hl7apy imported from %s, expected %s' % (got, REPO))
    return hl7apy


def seed_default():
    try:
        return int(os.environ.get('VERIF_SEED', '0'))
    except ValueError:
        return 0


def tier_default():
    t = os.environ.get('VERIF_TIER', 'quick')
    return t if t in ('quick', 'thorough') else 'quick'
