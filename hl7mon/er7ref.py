"""Reference ER7 tokenizer / encoder / escaper written from the HL7 v2 encoding rules.
Nothing here calls into hl7apy.

A tokenised segment is (name, fields) with fields = [field1, field2, ...]; each field is a list
of repetitions, each repetition a list of components, each component a list of sub-components
(strings).  Index 0 of `fields` is field number 1.  For MSH, field 1 is the field separator itself
and field 2 the encoding characters literal, both kept as single opaque leaves.
"""

STD = {'FIELD': '|', 'COMPONENT': '^', 'SUBCOMPONENT': '&', 'REPETITION': '~', 'ESCAPE': '\\'}
STD27 = dict(STD, TRUNCATION='#')
LETTERS = 'HNFSTRE'
LETTERS27 = 'HNFSTREL'


def std(version):
    return dict(STD27) if vkey(version) >= vkey('2.7') else dict(STD)


def vkey(v):
    return tuple(int(x) for x in v.split('.'))


def ec_from_msh(text):
    """(ec dict, msh2 literal) from the first line of a message"""
    assert text.startswith('MSH') and len(text) > 4
    f = text[3]
    first = text.split('\r', 1)[0]
    msh2 = first[4:].split(f, 1)[0]
    ec = {'FIELD': f, 'COMPONENT': msh2[0], 'REPETITION': msh2[1], 'ESCAPE': msh2[2], 'SUBCOMPONENT': msh2[3]}
    if len(msh2) == 5:
        ec['TRUNCATION'] = msh2[4]
    return ec, msh2


def split_field(text, ec):
    return [[comp.split(ec['SUBCOMPONENT']) for comp in rep.split(ec['COMPONENT'])]
            for rep in text.split(ec['REPETITION'])]


def tokenize_segment(line, ec):
    name = line[:3]
    if name == 'MSH':
        f = line[3:4]
        rest = line[4:].split(f)
        fields = [[[[f]]], [[[rest[0]]]]] + [split_field(x, ec) for x in rest[1:]]
        return name, fields
    parts = line.split(ec['FIELD'])
    return parts[0], [split_field(x, ec) for x in parts[1:]]


def tokenize_message(text, ec=None):
    if ec is None:
        ec, _ = ec_from_msh(text)
    return ec, [tokenize_segment(l, ec) for l in text.split('\r') if l]


def leaves(fields):
    """ordered [((field_no, rep_no, comp_no, sub_no), value)] of the non-empty leaves (1-based)"""
    out = []
    for i, fld in enumerate(fields):
        for r, rep in enumerate(fld):
            for c, comp in enumerate(rep):
                for s, sub in enumerate(comp):
                    if sub != '':
                        out.append(((i + 1, r + 1, c + 1, s + 1), sub))
    return out


def encode_field(fld, ec):
    return ec['REPETITION'].join(ec['COMPONENT'].join(ec['SUBCOMPONENT'].join(comp) for comp in rep) for rep in fld)


def encode_segment(name, fields, ec):
    if name == 'MSH':
        return 'MSH' + fields[0][0][0][0] + ec['FIELD'].join(
            [fields[1][0][0][0]] + [encode_field(f, ec) for f in fields[2:]])
    return ec['FIELD'].join([name] + [encode_field(f, ec) for f in fields])


def delimiters(ec):
    d = [ec['FIELD'], ec['COMPONENT'], ec['SUBCOMPONENT'], ec['REPETITION']]
    if 'TRUNCATION' in ec:
        d.append(ec['TRUNCATION'])
    return d


def letters_for(ec_or_version):
    if isinstance(ec_or_version, dict):
        return LETTERS27 if 'TRUNCATION' in ec_or_version else LETTERS
    return LETTERS27 if vkey(ec_or_version) >= vkey('2.7') else LETTERS


def well_formed(s, ec, letters=None):
    """True iff no delimiter occurs unescaped and, scanning left to right, every escape character
    opens or closes a sequence ESC <letter> ESC with <letter> among `letters`."""
    letters = letters or letters_for(ec)
    esc = ec['ESCAPE']
    dl = set(delimiters(ec))
    i, n = 0, len(s)
    while i < n:
        ch = s[i]
        if ch == esc:
            if i + 2 < n and s[i + 1] in letters and s[i + 2] == esc:
                i += 3
                continue
            return False
        if ch in dl:
            return False
        i += 1
    return True


def ref_escape(s, ec, letters=None):
    """single left-to-right pass: known sequence copied as a unit, any other escape char -> ESC E ESC,
    delimiters -> their sequences"""
    letters = letters or letters_for(ec)
    esc = ec['ESCAPE']
    tr = {ec['FIELD']: 'F', ec['COMPONENT']: 'S', ec['SUBCOMPONENT']: 'T', ec['REPETITION']: 'R'}
    if 'TRUNCATION' in ec:
        tr[ec['TRUNCATION']] = 'L'
    out = []
    i, n = 0, len(s)
    while i < n:
        ch = s[i]
        if ch == esc:
            if i + 2 < n and s[i + 1] in letters and s[i + 2] == esc:
                out.append(s[i:i + 3])
                i += 3
                continue
            out.append(esc + 'E' + esc)
        elif ch in tr:
            out.append(esc + tr[ch] + esc)
        else:
            out.append(ch)
        i += 1
    return ''.join(out)


def no_trailing_empties(fields):
    def te(lst, empty):
        return len(lst) > 1 and lst[-1] == empty or (len(lst) == 1 and False)
    if fields and fields[-1] == [[['']]]:
        return False
    for fld in fields:
        if len(fld) > 1 and fld[-1] == [['']]:
            return False
        for rep in fld:
            if len(rep) > 1 and rep[-1] == ['']:
                return False
            for comp in rep:
                if len(comp) > 1 and comp[-1] == '':
                    return False
    return True


def canonical_segment(line, ec, letters=None):
    """generator self-check for the 'canonical' domain of C01: no leading/trailing blanks in leaves,
    no trailing empty field/repetition/component/sub-component, well-formed escapes"""
    name, fields = tokenize_segment(line, ec)
    body = fields[2:] if name == 'MSH' else fields
    if not no_trailing_empties(body):
        return False
    for _, val in leaves(body):
        if val != val.strip():
            return False
        if not well_formed(val, ec, letters):
            return False
    return True


def shape(fields):
    """shape signature of a tokenised segment: per populated field (no, reps, comps per rep, subs)"""
    sig = []
    for i, fld in enumerate(fields):
        if fld == [[['']]]:
            continue
        sig.append((i + 1, tuple(tuple(len(c) for c in rep) for rep in fld)))
    return tuple(sig)
