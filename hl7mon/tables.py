"""Independent reader of the per-version structure tables (data rows only).

It imports the hl7apy.v2_* data modules and reads SEGMENTS / FIELDS / DATATYPES /
DATATYPES_STRUCTS / MESSAGES / GROUPS / BASE_DATATYPES directly.  It never calls
ElementFinder, load_reference, find_reference or any Element method: field numbers come
from the *row names* (PID_5 -> 5), not from list order.
"""
import collections
import importlib
import re

from . import env

FieldRow = collections.namedtuple('FieldRow', 'segment name num kind datatype long_name card table max_len ok why')
CompRow = collections.namedtuple('CompRow', 'parent name num kind datatype long_name card ok why')
Node = collections.namedtuple('Node', 'name kind card children content ok')   # kind SEG | GRP | MSG

_cache = {}


def versions():
    hl7apy = env.import_hl7apy()
    return sorted(hl7apy.SUPPORTED_LIBRARIES, key=lambda v: [int(x) for x in v.split('.')])


def lib(version):
    hl7apy = env.import_hl7apy()
    return importlib.import_module(hl7apy.SUPPORTED_LIBRARIES[version])


def base_datatypes(version):
    return set(lib(version).BASE_DATATYPES)


def _segment_rows(version, seg, ref):
    base = base_datatypes(version)
    rows = []
    if not (isinstance(ref, tuple) and len(ref) == 2 and ref[0] == 'sequence' and isinstance(ref[1], tuple)):
        return None, 'segment reference is not ("sequence", rows): %s' % (str(ref)[:50],)
    if len(ref[1]) == 0:
        return None, 'segment without field rows'
    for r in ref[1]:
        ok, why = True, ''
        if len(r) != 4:
            rows.append(FieldRow(seg, str(r[0]), None, None, None, None, None, None, None, False, 'row length'))
            continue
        name, fref, card, cls = r
        m = re.match(r'^%s_(\d+)$' % re.escape(seg), name)
        num = int(m.group(1)) if m else None
        if m is None:
            ok, why = False, 'row name is not <SEG>_<n>'
        if not isinstance(fref, (tuple, list)) or len(fref) != 6:
            rows.append(FieldRow(seg, name, num, None, None, None, card, None, None, False,
                                 'field reference has %s items' % (len(fref) if hasattr(fref, '__len__') else '?')))
            continue
        kind, struct, dt, long_name, table, max_len = fref
        if kind == 'leaf' and dt != 'varies' and dt not in base:
            ok, why = False, 'leaf row with non-base datatype %r' % (dt,)
        elif kind == 'sequence' and (dt in base or not isinstance(struct, tuple)):
            ok, why = False, 'sequence row with base datatype or no structure'
        elif kind == 'sequence' and struct is not lib(version).DATATYPES_STRUCTS.get(dt):
            ok, why = False, 'structure is not the one of datatype %r' % (dt,)
        elif kind not in ('leaf', 'sequence'):
            ok, why = False, 'unknown content type %r' % (kind,)
        if ok and tuple(card)[1] != 0 and lib(version).FIELDS.get(name) is not fref:     # (withdrawn rows reuse a neighbour's entry)
            ok, why = False, 'row %s does not reference FIELDS[%s]' % (name, name)
        rows.append(FieldRow(seg, name, num, kind, dt, long_name, tuple(card), table, max_len, ok, why))
    return rows, ''


def segments(version):
    """{segment name: [FieldRow...]} for real segments; malformed segment refs map to None.
    The pseudo-segment ANYHL7SEGMENT is excluded (see pseudo_segments)."""
    key = ('segments', version)
    if key not in _cache:
        out, bad = {}, {}
        for seg, ref in lib(version).SEGMENTS.items():
            if seg == 'ANYHL7SEGMENT':
                continue
            rows, why = _segment_rows(version, seg, ref)
            out[seg] = rows
            if rows is None:
                bad[seg] = why
        _cache[key] = out
        _cache[('badsegments', version)] = bad
    return _cache[key]


def malformed_segments(version):
    segments(version)
    return _cache[('badsegments', version)]


def gap_numbers(version, seg):
    """field numbers below the highest defined one that the table skips"""
    rows = segments(version)[seg] or []
    nums = [r.num for r in rows if r.num]
    return [i for i in range(1, max(nums) + 1) if i not in nums] if nums else []


def list_position(version, seg, name):
    rows = segments(version)[seg]
    return [r.name for r in rows].index(name) + 1


def components(version, datatype):
    """[CompRow...] of a complex datatype, [] for base / unknown datatypes."""
    key = ('components', version, datatype)
    if key not in _cache:
        L = lib(version)
        base = base_datatypes(version)
        rows = []
        for i, r in enumerate(L.DATATYPES_STRUCTS.get(datatype, ())):
            name, cref, card, cls = r
            m = re.match(r'^%s_(\d+)$' % re.escape(datatype), name)
            num = int(m.group(1)) if m else None
            kind, struct, dt, long_name = cref[0], cref[1], cref[2], cref[3]
            ok, why = True, ''
            if num is None:
                ok, why = False, 'row name'
            elif kind == 'leaf' and dt != 'varies' and dt not in base:
                ok, why = False, 'leaf row with non-base datatype %r' % (dt,)
            elif kind == 'sequence' and dt in base:
                ok, why = False, 'sequence row with base datatype'
            if ok and tuple(card)[1] != 0 and L.DATATYPES.get(name) is not cref:
                ok, why = False, 'row %s does not reference DATATYPES[%s]' % (name, name)
            rows.append(CompRow(datatype, name, num, kind, dt, long_name, tuple(card), ok, why))
        _cache[key] = rows
    return _cache[key]


def complex_datatypes(version):
    return sorted(lib(version).DATATYPES_STRUCTS)


def is_base(version, dt):
    return dt in base_datatypes(version)


_segref = {}


def _node(name, ref, card, cls, depth=0, version=None):
    if cls == 'SEG':
        ok = ref is not None
        if ok and version is not None and name != 'ANYHL7SEGMENT':
            ok = lib(version).SEGMENTS.get(name) is ref       # the row must reference the segment it names
        return Node(name, 'SEG', tuple(card), (), None, ok)
    ok = isinstance(ref, (tuple, list)) and len(ref) >= 2 and ref[0] in ('sequence', 'choice')
    if ok and version is not None and name in getattr(lib(version), 'GROUPS', {}):
        ok = lib(version).GROUPS[name] is ref                 # the row must reference the group it names
    children = []
    if ok:
        for c in ref[1]:
            children.append(_node(c[0], c[1], c[2], c[3], depth + 1, version))
    return Node(name, 'GRP', tuple(card), tuple(children), ref[0] if ok else None, ok)


def messages(version):
    """{structure name: Node(kind MSG)}"""
    key = ('messages', version)
    if key not in _cache:
        out = {}
        for name, ref in lib(version).MESSAGES.items():
            ok = isinstance(ref, (tuple, list)) and len(ref) >= 2 and ref[0] in ('sequence', 'choice')
            children = tuple(_node(c[0], c[1], c[2], c[3], 0, version) for c in ref[1]) if ok else ()
            out[name] = Node(name, 'MSG', (1, 1), children, ref[0] if ok else None, ok)
        _cache[key] = out
    return _cache[key]


def walk_nodes(node):
    yield node
    for c in node.children:
        for x in walk_nodes(c):
            yield x


def segment_name_places(node):
    """Counter: segment name -> number of places it is listed in the whole structure."""
    cnt = collections.Counter()
    for n in walk_nodes(node):
        if n.kind == 'SEG':
            cnt[n.name] += 1
    return cnt


def has_choice_or_pseudo(node):
    for n in walk_nodes(node):
        if n.kind in ('GRP', 'MSG') and n.content == 'choice':
            return True
        if n.kind == 'SEG' and n.name == 'ANYHL7SEGMENT':
            return True
    return False


def long_name_map(rows):
    """long name -> row name, only for long names that are unique among `rows`"""
    cnt = collections.Counter(r.long_name for r in rows if r.long_name)
    return {r.long_name: r.name for r in rows if r.long_name and cnt[r.long_name] == 1}


def counts():
    out = {}
    for v in versions():
        segs = segments(v)
        out[v] = {
            'segments': len(segs),
            'field_rows': sum(len(r) for r in segs.values() if r),
            'complex_datatypes': len(complex_datatypes(v)),
            'component_rows': sum(len(components(v, d)) for d in complex_datatypes(v)),
            'messages': len(messages(v)),
        }
    return out
